//! Scenario `oneshotip` (C08 / C19): the one-shot server bootstrap through the public ipc API only, so that it also runs on
//! the in-process transport (whose rendezvous is a registry of names, different code from the Unix one): clients connect
//! before or after `accept` is called, send 1..6 messages (the first with an embedded sender) before and after the accept,
//! may have finished before it; `accept` returns the first message, the receiver yields the rest in order and then
//! disconnection; many servers alive at once have distinct names and do not disturb one another.
use crate::util::*;
use ipc_channel::ipc::{self, IpcOneShotServer, IpcSender, IpcSharedMemory};
use std::time::Duration;

type Msg = (u64, Vec<u8>, Option<IpcSender<u64>>, Vec<IpcSharedMemory>);

/// contents of shared memory region `r` of message `t` (length 0 for some: the empty region travels without an attachment)
fn region(t: u64, r: u64, shape: u64) -> Vec<u8> {
    let len = match (t + r + shape) % 4 {
        0 => 0,
        1 => 1,
        2 => 4096,
        _ => 70_000,
    };
    (0..len).map(|j| (t as u8).wrapping_mul(7).wrapping_add(r as u8).wrapping_add((j % 253) as u8)).collect()
}

fn one_case(rng: &mut Rng, id: String) -> Case {
    let mut case = Case::new(id);
    let nsrv = 1 + rng.below(4) as usize;
    let mut servers = Vec::new();
    let mut names = Vec::new();
    for _ in 0..nsrv {
        let (s, n) = IpcOneShotServer::<Msg>::new().unwrap();
        if names.contains(&n) {
            case.fail(format!("two servers alive at once share the name {}", n));
        }
        names.push(n);
        servers.push(Some(s));
    }
    // accept in a seeded order; each client starts before or after its accept is issued
    let mut order: Vec<usize> = (0..nsrv).collect();
    for i in (1..order.len()).rev() {
        order.swap(i, rng.below(i as u64 + 1) as usize);
    }
    let mut key = Vec::new();
    for &i in &order {
        let nmsg = 1 + rng.below(6);
        let client_first = rng.below(2) == 0;
        let finish_before_accept = client_first && rng.below(2) == 0;
        // a client that sends multi-packet messages cannot finish before somebody receives (the OS transport blocks it)
        let big = !finish_before_accept && rng.below(3) == 0;
        // what the first message carries besides data: an embedded sender or not, 0..2 shared memory regions (a first message
        // with regions only and no channel goes through the bootstrap like any other); later messages carry regions too
        let with_sender = rng.below(3) != 0;
        let shape = rng.below(12);
        let nreg = move |t: u64| (shape + t) % 3;
        key.push(format!("{}:{}:{}:{}:{}:{}", nmsg, client_first as u8, finish_before_accept as u8, big as u8, with_sender as u8, shape));
        let name = names[i].clone();
        let (ptx, prx) = ipc::channel::<u64>().unwrap();
        let delay = if client_first { 0 } else { 15 };
        let mut h = Some(std::thread::spawn(move || {
            std::thread::sleep(Duration::from_millis(delay));
            let tx: IpcSender<Msg> = match IpcSender::connect(name) {
                Ok(t) => t,
                Err(_) => return false,
            };
            let mut ok = true;
            for t in 0..nmsg {
                let len = if big && t % 2 == 0 { 300_000 } else { 10 + t as usize };
                let body: Vec<u8> = (0..len).map(|j| (t as u8).wrapping_mul(13).wrapping_add((j % 251) as u8)).collect();
                let regs: Vec<IpcSharedMemory> = (0..nreg(t)).map(|r| IpcSharedMemory::from_bytes(&region(t, r, shape))).collect();
                ok &= tx.send((t, body, if t == 0 && with_sender { Some(ptx.clone()) } else { None }, regs)).is_ok();
            }
            ok
        }));
        let mut joined = None;
        if finish_before_accept {
            joined = Some(h.take().unwrap().join().unwrap_or(false));
        } else if client_first {
            std::thread::sleep(Duration::from_millis(5));
        }
        let server = servers[i].take().unwrap();
        let acc = with_watchdog(10, move || server.accept());
        let (rx, first) = match acc {
            Some(Ok(x)) => x,
            Some(Err(e)) => {
                case.fail(format!("accept failed: {:?}", e));
                break;
            },
            None => {
                case.fail("accept() did not return within 10 s although a client connected and sent".into());
                break;
            },
        };
        let check = |case: &mut Case, t: u64, m: &Msg| {
            let len = if big && t % 2 == 0 { 300_000 } else { 10 + t as usize };
            let want: Vec<u8> = (0..len).map(|j| (t as u8).wrapping_mul(13).wrapping_add((j % 251) as u8)).collect();
            if m.0 != t || m.1 != want {
                case.fail(format!("message {} of the client arrived as message {} / altered ({} bytes)", t, m.0, m.1.len()));
            }
            let want: Vec<Vec<u8>> = (0..nreg(t)).map(|r| region(t, r, shape)).collect();
            let got: Vec<Vec<u8>> = m.3.iter().map(|r| r.to_vec()).collect();
            if got != want {
                case.fail(format!("message {}: its {} shared memory regions arrived as {} regions / with other contents", t, want.len(), got.len()));
            }
        };
        check(&mut case, 0, &first);
        match &first.2 {
            Some(p) => {
                let _ = p.send(4242);
                match prx.try_recv_timeout(Duration::from_secs(5)) {
                    Ok(4242) => {},
                    other => case.fail(format!("the sender embedded in the first message is not the client's: {:?}", other)),
                }
            },
            None if with_sender => case.fail("the first message lost its embedded sender".into()),
            None => {},
        }
        for t in 1..nmsg {
            match rx.try_recv_timeout(Duration::from_secs(5)) {
                Ok(m) => check(&mut case, t, &m),
                Err(e) => {
                    case.fail(format!("later message {} of {} did not arrive: {:?}", t, nmsg, e));
                    break;
                },
            }
        }
        // the client is joined only now: a multi-packet send of its blocks until the messages in front of it are received
        let ok = match joined {
            Some(v) => v,
            None => h.take().map(|x| x.join().unwrap_or(false)).unwrap_or(false),
        };
        if !ok {
            case.fail("a client's connect or send failed".into());
        }
        drop(first);
        match rx.try_recv_timeout(Duration::from_secs(5)) {
            Err(ipc::TryRecvError::IpcError(ipc::IpcError::Disconnected)) => {},
            other => case.fail(format!("after the client's last message and exit: {:?} instead of disconnected", other.map(|m| m.0))),
        }
        if case.oracle.is_some() {
            break;
        }
    }
    case.pair("noop".into(), "ok".into());
    case.nontrivial = true;
    case.key = key.join("|");
    case.tags.push(format!("servers={}", nsrv));
    case
}


/// Registry scripts (C08 / C19): seeded sequences of new / connect (to a live name, to the name of a server that has accepted
/// or was dropped unused, to a name never handed out) / send / accept / drop server / receive through the public API, compared
/// result by result with the `OneShot` model (request line `oneshot …`).  A rendezvous name is good for one connection
/// (that is what "one-shot" promises on every transport), so a script connects at most once to a live server.
fn registry_case(rng: &mut Rng, id: String) -> Case {
    struct Srv {
        server: Option<IpcOneShotServer<u64>>,
        name: String,
        conn: Option<usize>,
    }
    struct Conn {
        tx: Option<IpcSender<u64>>,
        rx: Option<ipc::IpcReceiver<u64>>,
        queued: u64,
    }
    let mut case = Case::new(id);
    let mut srvs: Vec<Srv> = Vec::new();
    let mut conns: Vec<Conn> = Vec::new();
    let (mut ops, mut res): (Vec<String>, Vec<String>) = (Vec::new(), Vec::new());
    let mut tag = 100u64;
    let steps = 4 + rng.below(14);
    for _ in 0..steps {
        match rng.below(12) {
            0..=2 => {
                ops.push("new 0".into());
                match std::panic::catch_unwind(|| IpcOneShotServer::<u64>::new()) {
                    Ok(Ok((server, name))) => {
                        res.push(format!("server:{}", srvs.len()));
                        srvs.push(Srv { server: Some(server), name, conn: None });
                    },
                    Ok(Err(e)) => {
                        res.push("err".into());
                        case.fail(format!("IpcOneShotServer::new failed: {:?}", e));
                    },
                    Err(_) => {
                        res.push("panic".into());
                        case.fail("IpcOneShotServer::new panicked (after an earlier failed connect?)".into());
                    },
                }
            },
            3..=5 => {
                // a live name not connected to yet, a retired name, or one never handed out
                let never = rng.below(4) == 0 || srvs.is_empty();
                let (m, target) = if never {
                    (900 + rng.below(50) as usize, format!("/nonexistent-{}/socket", rng.below(1000)))
                } else {
                    let m = rng.below(srvs.len() as u64) as usize;
                    (m, srvs[m].name.clone())
                };
                if !never && srvs[m].server.is_some() && srvs[m].conn.is_some() {
                    continue;
                }
                let live = !never && srvs[m].server.is_some();
                ops.push(format!("connect {}", m));
                match std::panic::catch_unwind(move || IpcSender::<u64>::connect(target)) {
                    Ok(Ok(tx)) => {
                        res.push(format!("conn:{}", conns.len()));
                        if live {
                            srvs[m].conn = Some(conns.len());
                        } else {
                            case.fail("connect to the name of a server that has accepted, was dropped unused or never existed succeeded".into());
                        }
                        conns.push(Conn { tx: Some(tx), rx: None, queued: 0 });
                    },
                    Ok(Err(_)) => {
                        res.push("err".into());
                        if live {
                            case.fail("connect to a live server failed".into());
                        }
                    },
                    Err(_) => {
                        res.push("panic".into());
                        case.fail("connect to the name of a server that has accepted, was dropped unused or never existed panicked instead of returning an error".into());
                    },
                }
                case.tags.push(format!("connect={}", if live { "live" } else if never { "never" } else { "retired" }));
            },
            6 | 7 if conns.iter().any(|c| c.tx.is_some() && c.rx.is_none()) || conns.iter().any(|c| c.tx.is_some()) => {
                let live: Vec<usize> = conns.iter().enumerate().filter(|(_, c)| c.tx.is_some()).map(|(i, _)| i).collect();
                let c = live[rng.below(live.len() as u64) as usize];
                // a client whose server went away unaccepted gets an error; the model knows (`reset`)
                tag += 1;
                ops.push(format!("csend {} {}", c, tag));
                match conns[c].tx.as_ref().unwrap().send(tag) {
                    Ok(()) => {
                        res.push("ok".into());
                        conns[c].queued += 1;
                    },
                    Err(_) => res.push("err".into()),
                }
            },
            8 | 9 => {
                // accept where it cannot block: the server's client has sent something
                let cand: Vec<usize> = srvs.iter().enumerate()
                    .filter(|(_, s)| s.server.is_some() && s.conn.map(|c| conns[c].queued > 0).unwrap_or(false)).map(|(i, _)| i).collect();
                if cand.is_empty() {
                    continue;
                }
                let sidx = cand[rng.below(cand.len() as u64) as usize];
                let c = srvs[sidx].conn.unwrap();
                let server = srvs[sidx].server.take().unwrap();
                ops.push(format!("accept {}", sidx));
                match with_watchdog(10, move || server.accept()) {
                    Some(Ok((rx, t))) => {
                        res.push(format!("accepted:{}:{}", c, t));
                        conns[c].rx = Some(rx);
                        conns[c].queued -= 1;
                    },
                    Some(Err(e)) => {
                        res.push("err".into());
                        case.fail(format!("accept failed: {:?}", e));
                    },
                    None => {
                        res.push("blocks".into());
                        case.fail("accept did not return although the client had connected and sent".into());
                    },
                }
            },
            10 if srvs.iter().any(|s| s.server.is_some()) => {
                let live: Vec<usize> = srvs.iter().enumerate().filter(|(_, s)| s.server.is_some()).map(|(i, _)| i).collect();
                let sidx = live[rng.below(live.len() as u64) as usize];
                srvs[sidx].server = None;
                ops.push(format!("dropsrv {}", sidx));
                res.push("ok".into());
                case.tags.push("server_dropped_unused".into());
            },
            _ => {
                let live: Vec<usize> = conns.iter().enumerate().filter(|(_, c)| c.rx.is_some()).map(|(i, _)| i).collect();
                if live.is_empty() {
                    continue;
                }
                let c = live[rng.below(live.len() as u64) as usize];
                ops.push(format!("recv {}", c));
                match conns[c].rx.as_ref().unwrap().try_recv() {
                    Ok(t) => {
                        res.push(format!("msg:{}", t));
                        conns[c].queued -= 1;
                    },
                    Err(ipc::TryRecvError::Empty) => res.push("empty".into()),
                    Err(ipc::TryRecvError::IpcError(ipc::IpcError::Disconnected)) => res.push("disc".into()),
                    Err(e) => {
                        res.push("error".into());
                        case.fail(format!("receive failed: {:?}", e));
                    },
                }
            },
        }
    }
    let live_srv = srvs.iter().filter(|s| s.server.is_some()).count();
    let rxn = conns.iter().filter(|c| c.rx.is_some()).count();
    case.pair(format!("oneshot {}", ops.join(" | ")), format!("{} ; fs={} listen={} rx={}", res.join(" "), live_srv, live_srv, rxn));
    case.nontrivial = ops.len() > 2;
    case.key = ops.join("|");
    case
}

pub fn run(args: &[String]) {
    let thorough = arg(args, "--tier").as_deref() == Some("thorough");
    let seed = arg_u64(args, "--seed", 1);
    let n = arg_u64(args, "--n", if thorough { 600 } else { 60 });
    let mut rng = Rng::new(seed ^ 0x0e5);
    for i in 0..n {
        one_case(&mut rng, format!("oneshotip-{}", i)).emit();
    }
    for i in 0..(if thorough { 3000 } else { 300 }) {
        registry_case(&mut rng, format!("oneshotip-reg-{}", i)).emit();
    }
    // many servers alive at once: distinct names
    let mut c = Case::new("oneshotip-names".into());
    let mut keep = Vec::new();
    let mut names = std::collections::BTreeSet::new();
    for _ in 0..(if thorough { 2000 } else { 200 }) {
        let (s, n) = IpcOneShotServer::<u64>::new().unwrap();
        if !names.insert(n.clone()) {
            c.fail(format!("server name {} handed out twice while the first holder is alive", n));
        }
        keep.push(s);
    }
    drop(keep);
    c.pair("noop".into(), "ok".into());
    c.nontrivial = true;
    c.key = "names".into();
    c.emit();
}
