//! Scenario `bigvalue` (C01): typed values whose encoding is large — around every power of two from 1 MiB to 64 MiB
//! (thorough: 256 MiB), as one string, as a sequence of medium-sized strings, and next to an embedded sender — sent through
//! the public typed API and received by every receive path (recv, try_recv_timeout, receiver set + `to`).  The value
//! received is the value sent; nothing on the way (encoder, transport, decoder) may have a size above which a message
//! that `send` accepted is lost or altered.
use crate::util::*;
use ipc_channel::ipc::{self, IpcReceiverSet, IpcSelectionResult, IpcSender};
use std::time::Duration;

type Big = (u32, String, Vec<String>, Option<IpcSender<u32>>);

fn text(len: usize, salt: u32) -> String {
    // cheap to build and to compare, not constant: 64-byte lines that differ by position
    let mut s = String::with_capacity(len + 64);
    let mut i = 0usize;
    while s.len() < len {
        s.push_str(&format!("{:08x}{:08x}", i as u32 ^ salt, (i as u32).wrapping_mul(2654435761)));
        i += 1;
    }
    s.truncate(len);
    s
}

fn one_case(id: String, total: usize, shape: u32, path: u32) -> Case {
    let mut case = Case::new(id);
    let (tx, rx) = ipc::channel::<Big>().unwrap();
    let (ptx, prx) = ipc::channel::<u32>().unwrap();
    let (one, many): (String, Vec<String>) = match shape {
        0 => (text(total, 1), vec![]),
        1 => {
            let part = 700_001usize;
            let k = total / part;
            (text(total - k * part, 2), (0..k).map(|j| text(part, j as u32)).collect())
        },
        _ => (text(total / 2, 3), vec![text(total - total / 2, 4)]),
    };
    let with_sender = shape == 2;
    let sent_one = one.clone();
    let sent_many = many.clone();
    let h = std::thread::spawn(move || {
        let r = tx.send((7, one, many, if with_sender { Some(ptx) } else { None })).is_ok();
        let r2 = tx.send((8, String::from("after"), vec![], None)).is_ok();
        r && r2
    });
    let got: Option<Result<Vec<Big>, String>> = with_watchdog(120, move || {
        let mut out = Vec::new();
        match path {
            0 => {
                for _ in 0..2 {
                    out.push(rx.recv().map_err(|e| format!("{:?}", e))?);
                }
            },
            1 => {
                for _ in 0..2 {
                    out.push(rx.try_recv_timeout(Duration::from_secs(60)).map_err(|e| format!("{:?}", e))?);
                }
            },
            _ => {
                let mut set = IpcReceiverSet::new().map_err(|e| format!("{:?}", e))?;
                set.add(rx).map_err(|e| format!("{:?}", e))?;
                while out.len() < 2 {
                    for ev in set.select().map_err(|e| format!("{:?}", e))? {
                        match ev {
                            IpcSelectionResult::MessageReceived(_, m) => out.push(m.to::<Big>().map_err(|e| format!("{:?}", e))?),
                            IpcSelectionResult::ChannelClosed(_) if out.len() < 2 => return Err("closed before both messages".into()),
                            IpcSelectionResult::ChannelClosed(_) => {},
                        }
                    }
                }
            },
        }
        Ok(out)
    });
    let sent_ok = h.join().unwrap_or(false);
    if !sent_ok {
        case.fail(format!("send of a {}-byte value (shape {}) was refused", total, shape));
    }
    match got {
        None => case.fail(format!("{}-byte value (shape {}): receive did not finish within 120 s", total, shape)),
        Some(Err(e)) => {
            if sent_ok {
                case.fail(format!("{}-byte value (shape {}, path {}) was accepted by send and lost on receive: {}", total, shape, path, e))
            }
        },
        Some(Ok(v)) => {
            if v.len() != 2 || v[0].0 != 7 || v[0].1 != sent_one || v[0].2 != sent_many || v[1].0 != 8 || v[1].1 != "after" {
                case.fail(format!("{}-byte value (shape {}, path {}) arrived altered or out of order", total, shape, path));
            }
            if with_sender {
                match &v[0].3 {
                    Some(p) => {
                        let _ = p.send(99);
                        if !matches!(prx.try_recv_timeout(Duration::from_secs(5)), Ok(99)) {
                            case.fail("the sender embedded next to the large value is not the one sent".into());
                        }
                    },
                    None => case.fail("the sender embedded next to the large value was lost".into()),
                }
            }
        },
    }
    case.pair("noop".into(), "ok".into());
    case.nontrivial = true;
    case.key = format!("{}:{}:{}", total, shape, path);
    case.tags.push(format!("mib={}", total >> 20));
    case
}

pub fn run(args: &[String]) {
    let thorough = arg(args, "--tier").as_deref() == Some("thorough");
    let seed = arg_u64(args, "--seed", 1);
    let mut rng = Rng::new(seed ^ 0xb16);
    let top = if thorough { 28 } else { 26 };
    let mut n = 0u32;
    for p in 20..=top {
        let base = 1usize << p;
        // the encoding of (u32, String, Vec<String>, Option<..>) adds 4 + 8 + 8 + 1 bytes (+ 8 per part): lengths on both
        // sides of the power of two for the payload itself and for the encoded message
        let mut lens = vec![base - 30, base - 21, base - 9, base - 8, base - 7, base, base + 1];
        lens.push(base + 1 + rng.below(base as u64 / 2) as usize);
        if !thorough {
            // quick: three of them per power, seeded
            let k = rng.below(5) as usize;
            lens = vec![lens[k], lens[(k + 3) % 7], lens[7]];
        }
        for len in lens {
            one_case(format!("bigvalue-{}", n), len, n % 3, (n / 3) % 3).emit();
            n += 1;
        }
    }
}
