//! Scenario `stress` (C02, C03, C12): real concurrency without the gate — 1..6 sender threads on clones of one channel, each
//! sending a numbered sequence of small / one-packet / multi-packet messages and dropping its handle the moment it is done,
//! while the receiver takes messages with a seeded mix of recv / try_recv (spinning) / try_recv_timeout / a receiver set.
//! Per sender: every message exactly once, intact, in order; disconnection only after the last message of the last sender.
//! (Schedules the gated `sched` scenario enumerates are replayed in the model; this one is there for what only the real
//! kernel does — D16 was of that kind.)
use crate::interpose as ip;
use crate::util::*;
use ipc_channel::platform::{self, OsIpcReceiverSet, OsIpcSelectionResult, OsIpcSender};
use std::sync::atomic::Ordering;
use std::time::{Duration, Instant};

fn body(sender: u8, seq: u32, len: usize) -> Vec<u8> {
    let mut v = vec![0u8; len.max(8)];
    v[0] = sender;
    v[1..5].copy_from_slice(&seq.to_le_bytes());
    for i in 5..v.len() {
        v[i] = sender.wrapping_mul(31).wrapping_add(seq as u8).wrapping_add((i % 251) as u8);
    }
    v
}

fn round(rng: &mut Rng, id: String, max: usize, fs: usize) -> Case {
    let mut case = Case::new(id);
    let ns = 1 + rng.below(6) as usize;
    let mode = rng.below(4);
    let (tx, rx) = platform::channel().unwrap();
    let mut plan: Vec<Vec<usize>> = Vec::new();
    for _ in 0..ns {
        let n = 5 + rng.below(36) as usize;
        plan.push((0..n).map(|_| [8usize, 100, max, max + 1, max + 2 * fs + 1][rng.below(5) as usize]).collect());
    }
    let mut hs = Vec::new();
    for (s, lens) in plan.iter().enumerate() {
        let t = tx.clone();
        let lens = lens.clone();
        hs.push(std::thread::spawn(move || {
            let mut ok = 0usize;
            for (q, l) in lens.iter().enumerate() {
                if t.send(&body(s as u8, q as u32, *l), vec![], vec![]).is_ok() {
                    ok += 1;
                }
            }
            drop(t);
            ok
        }));
    }
    drop(tx);
    let total: usize = plan.iter().map(|p| p.len()).sum();
    let mut next = vec![0u32; ns];
    let mut got = 0usize;
    let t0 = Instant::now();
    let mut closed = false;
    let mut handle = |d: Vec<u8>, case: &mut Case, next: &mut Vec<u32>, got: &mut usize| {
        let s = d[0] as usize;
        let q = u32::from_le_bytes(d[1..5].try_into().unwrap());
        if s >= ns {
            case.fail(format!("a message from an unknown sender {} arrived", s));
            return;
        }
        let want = plan[s].get(q as usize).copied().unwrap_or(0);
        if d != body(s as u8, q, want) {
            case.fail(format!("message {} of sender {} ({} bytes) arrived altered ({} bytes)", q, s, want, d.len()));
        }
        if q != next[s] {
            case.fail(format!("sender {}: message {} arrived where {} is due (lost, duplicated or reordered)", s, q, next[s]));
        }
        next[s] = q + 1;
        *got += 1;
    };
    if mode == 3 {
        let mut set = OsIpcReceiverSet::new().unwrap();
        set.add(rx).unwrap();
        'outer: while t0.elapsed() < Duration::from_secs(20) && case.oracle.is_none() {
            match set.select() {
                Ok(rs) => {
                    for r in rs {
                        match r {
                            OsIpcSelectionResult::DataReceived(_, d, _, _) => handle(d, &mut case, &mut next, &mut got),
                            OsIpcSelectionResult::ChannelClosed(_) => {
                                closed = true;
                                break 'outer;
                            },
                        }
                    }
                },
                Err(e) => {
                    case.fail(format!("select failed: {:?}", e));
                    break;
                },
            }
        }
    } else {
        while t0.elapsed() < Duration::from_secs(20) && case.oracle.is_none() {
            let r = match mode {
                0 => rx.recv(),
                1 => rx.try_recv(),
                _ => rx.try_recv_timeout(Duration::from_micros([0u64, 300, 2000][rng.below(3) as usize])),
            };
            match r {
                Ok((d, _, _)) => handle(d, &mut case, &mut next, &mut got),
                Err(e) if e.channel_is_closed() => {
                    closed = true;
                    break;
                },
                Err(_) => {},
            }
        }
    }
    let sent_ok: usize = hs.into_iter().map(|h| h.join().unwrap_or(0)).sum();
    if case.oracle.is_none() {
        if !closed {
            case.fail(format!("the receiver did not reach disconnection within 20 s ({} of {} messages received)", got, total));
        } else if got != total || sent_ok != total {
            case.fail(format!(
                "disconnection reported after {} of {} messages ({} sends returned Ok; {} senders, receive mode {})",
                got, total, sent_ok, ns, ["recv", "try_recv", "try_recv_timeout", "select"][mode as usize]
            ));
        }
    }
    case.pair("noop".into(), "ok".into());
    case.nontrivial = true;
    case.key = format!("{}:{}:{}", ns, mode, total);
    case.tags.push(format!("senders={}", ns));
    case.tags.push(format!("mode={}", ["recv", "try_recv", "try_recv_timeout", "select"][mode as usize]));
    case
}

pub fn run(args: &[String]) {
    let thorough = arg(args, "--tier").as_deref() == Some("thorough");
    let seed = arg_u64(args, "--seed", 1);
    let n = arg_u64(args, "--n", if thorough { 4000 } else { 300 });
    ip::SPOOF_SNDBUF.store(4608, Ordering::SeqCst);
    let sys = crate::frag::effective_sys();
    let max = OsIpcSender::get_max_fragment_size();
    let fs = sys - 32;
    let mut rng = Rng::new(seed ^ 0x57e55);
    for i in 0..n {
        round(&mut rng, format!("stress-{}", i), max, fs).emit();
    }
}
