//! Scenario `oneshot` (C08): seeded lifecycles of up to 3 one-shot servers — creation (also failing at each step of `new`:
//! over-long TMPDIR, forced socket()/bind()/listen() failure), clients connecting before or after accept is possible
//! (same process, or a spawned process that sends and exits), client sends, client exit, accept, dropping an unused
//! server, receives on the returned receiver — compared with `OneShot.run`, with the temp root listed and the
//! descriptor table counted at the end.  Then name distinctness over many consecutive and simultaneous servers.
use crate::interpose::{self as ip, Ctx, Ev};
use crate::util::*;
use ipc_channel::ipc::{IpcError, IpcOneShotServer, IpcReceiver, IpcSender, TryRecvError};
use std::sync::atomic::Ordering;

pub fn child(args: &[String]) {
    let name = arg(args, "--name").unwrap();
    let tags: Vec<u64> = arg(args, "--tags").unwrap_or_default().split(',').filter_map(|t| t.parse().ok()).collect();
    let tx: IpcSender<u64> = IpcSender::connect(name).unwrap();
    for t in tags {
        tx.send(t).unwrap();
    }
    // exit without waiting for anybody
}

fn ls(root: &std::path::Path) -> Vec<String> {
    let mut v: Vec<String> = std::fs::read_dir(root).map(|rd| rd.flatten().map(|e| e.file_name().to_string_lossy().into_owned()).collect()).unwrap_or_default();
    v.sort();
    v
}

struct Srv {
    server: Option<IpcOneShotServer<u64>>,
    name: String,
    /// model connection ids waiting in the backlog
    backlog: Vec<usize>,
}
struct Conn {
    tx: Option<IpcSender<u64>>,
    rx: Option<IpcReceiver<u64>>,
    queued: usize,
    reset: bool,
}

pub fn run(args: &[String]) {
    let thorough = arg(args, "--tier").as_deref() == Some("thorough");
    let seed = arg_u64(args, "--seed", 1);
    let n = arg_u64(args, "--n", if thorough { 1500 } else { 100 });
    let mut rng = Rng::new(seed ^ 0x0e5b);
    // private temp root so that leftovers can be listed exactly
    let root = std::env::temp_dir().join(format!("vh-oneshot-{}-{}", std::process::id(), seed));
    let _ = std::fs::remove_dir_all(&root);
    std::fs::create_dir_all(&root).unwrap();
    let long_dir = root.join("x".repeat(120));
    std::env::set_var("TMPDIR", &root);
    for i in 0..n {
        let mut case = Case::new(format!("oneshot-{}", i));
        let fds0 = ip::proc_fds().len();
        let ls0 = ls(&root);
        let _g = ip::install(Ctx::new(0));
        let mut srvs: Vec<Srv> = Vec::new();
        let mut conns: Vec<Conn> = Vec::new();
        let mut ops: Vec<String> = Vec::new();
        let mut res: Vec<String> = Vec::new();
        let mut tag = 10u64;
        let mut next_name_model = 0usize; // model names are a counter; map them to real names
        let mut names: Vec<Option<String>> = Vec::new();
        let nops = rng.range(6, 28);
        for _ in 0..nops {
            let k = rng.below(20);
            match k {
                0..=2 if srvs.len() < 3 => {
                    let _ = ip::take_trace();
                    match IpcOneShotServer::<u64>::new() {
                        Ok((server, name)) => {
                            // the address actually bound is the returned name, inside its own directory under the temp root
                            let tr = ip::take_trace();
                            // the rendezvous descriptor must not be inheritable: a process spawned while the server lives would
                            // keep the listening socket (and the name) alive after accept / drop
                            for (_, e) in &tr {
                                if let Ev::Socket { fd, cloexec: false } = e {
                                    if *fd >= 0 && !ip::fd_cloexec(*fd) {
                                        case.fail(format!("the listening socket of a one-shot server (descriptor {}) is inheritable (no close-on-exec)", fd));
                                    }
                                }
                            }
                            let bound: Vec<String> = tr.into_iter().filter_map(|(_, e)| if let Ev::Bind { path, r: 0, .. } = e { Some(path) } else { None }).collect();
                            if bound != vec![name.clone()] {
                                case.fail(format!("server name {} but the socket was bound to {:?}", name, bound));
                            }
                            if !name.starts_with(root.to_str().unwrap()) {
                                case.fail(format!("server name {} is outside the temp root", name));
                            }
                            res.push(format!("server:{}", srvs.len()));
                            srvs.push(Srv { server: Some(server), name: name.clone(), backlog: vec![] });
                            names.push(Some(name));
                        },
                        Err(e) => {
                            case.fail(format!("IpcOneShotServer::new failed: {:?}", e));
                            res.push("err".into());
                            names.push(None);
                        },
                    }
                    next_name_model += 1;
                    ops.push("new 0".into());
                },
                3 => {
                    // a failing new: 1 = path too long, 2 = socket, 3 = bind, 4 = listen
                    let how = rng.range(1, 4);
                    match how {
                        1 => {
                            std::fs::create_dir_all(&long_dir).unwrap();
                            std::env::set_var("TMPDIR", &long_dir);
                        },
                        2 => ip::FAIL_SOCKET.store(true, Ordering::SeqCst),
                        3 => ip::FAIL_BIND.store(true, Ordering::SeqCst),
                        _ => ip::FAIL_LISTEN.store(true, Ordering::SeqCst),
                    }
                    let r = IpcOneShotServer::<u64>::new();
                    std::env::set_var("TMPDIR", &root);
                    ip::FAIL_SOCKET.store(false, Ordering::SeqCst);
                    ip::FAIL_BIND.store(false, Ordering::SeqCst);
                    ip::FAIL_LISTEN.store(false, Ordering::SeqCst);
                    match r {
                        Ok(_) => {
                            case.fail(format!("IpcOneShotServer::new succeeded although step {} was made to fail", how));
                            res.push("server:?".into());
                        },
                        Err(_) => res.push("err".into()),
                    }
                    if how == 1 {
                        let left = ls(&long_dir);
                        if !left.is_empty() {
                            case.fail(format!("failed new (path too long) left {:?} behind", left));
                        }
                        let _ = std::fs::remove_dir(&long_dir);
                    }
                    names.push(None);
                    next_name_model += 1;
                    ops.push(format!("new {}", how));
                    case.tags.push(format!("new_fails_at={}", how));
                },
                4..=6 if !names.is_empty() => {
                    // connect to a live or a retired name
                    let m = rng.below(names.len() as u64) as usize;
                    ops.push(format!("connect {}", m));
                    let live = srvs.iter().position(|s| s.server.is_some() && names[m].as_deref() == Some(&s.name[..]));
                    let target = match &names[m] {
                        Some(nm) => nm.clone(),
                        None => root.join("no-such-dir/socket").to_string_lossy().into_owned(),
                    };
                    match IpcSender::<u64>::connect(target) {
                        Ok(tx) => {
                            res.push(format!("conn:{}", conns.len()));
                            if let Some(s) = live {
                                srvs[s].backlog.push(conns.len());
                            } else {
                                case.fail("connect to a retired or never created name succeeded".into());
                            }
                            conns.push(Conn { tx: Some(tx), rx: None, queued: 0, reset: false });
                        },
                        Err(_) => {
                            res.push("err".into());
                            if live.is_some() {
                                case.fail("connect to a live server failed".into());
                            }
                        },
                    }
                    case.tags.push(format!("connect={}", if live.is_some() { "live" } else { "retired" }));
                },
                7 if srvs.iter().any(|s| s.server.is_some()) => {
                    // a spawned client process connects, sends 1..3 messages and exits before accept
                    let s = srvs.iter().position(|s| s.server.is_some()).unwrap();
                    let m = names.iter().position(|x| x.as_deref() == Some(&srvs[s].name[..])).unwrap();
                    let k = rng.range(1, 3);
                    let tags: Vec<u64> = (0..k).map(|_| { tag += 1; tag }).collect();
                    let st = std::process::Command::new(std::env::current_exe().unwrap())
                        .args(["oneshotchild", "--name", &srvs[s].name, "--tags", &tags.iter().map(|t| t.to_string()).collect::<Vec<_>>().join(",")])
                        .status()
                        .unwrap();
                    if !st.success() {
                        case.fail(format!("client process failed: {:?}", st));
                    }
                    let c = conns.len();
                    ops.push(format!("connect {}", m));
                    res.push(format!("conn:{}", c));
                    for t in &tags {
                        ops.push(format!("csend {} {}", c, t));
                        res.push("ok".into());
                    }
                    ops.push(format!("cclose {}", c));
                    res.push("ok".into());
                    srvs[s].backlog.push(c);
                    conns.push(Conn { tx: None, rx: None, queued: tags.len(), reset: false });
                    case.tags.push("client=exited_process".into());
                },
                8..=11 if conns.iter().any(|c| c.tx.is_some()) => {
                    let live: Vec<usize> = conns.iter().enumerate().filter(|(_, c)| c.tx.is_some()).map(|(i, _)| i).collect();
                    let c = live[rng.below(live.len() as u64) as usize];
                    if conns[c].queued >= 20 {
                        continue;
                    }
                    tag += 1;
                    ops.push(format!("csend {} {}", c, tag));
                    match conns[c].tx.as_ref().unwrap().send(tag) {
                        Ok(()) => {
                            res.push("ok".into());
                            conns[c].queued += 1;
                        },
                        Err(_) => res.push("err".into()),
                    }
                },
                12 if conns.iter().any(|c| c.tx.is_some()) => {
                    let live: Vec<usize> = conns.iter().enumerate().filter(|(_, c)| c.tx.is_some()).map(|(i, _)| i).collect();
                    let c = live[rng.below(live.len() as u64) as usize];
                    conns[c].tx = None;
                    ops.push(format!("cclose {}", c));
                    res.push("ok".into());
                },
                13..=15 => {
                    // accept, only when it cannot block: the first connection in the backlog has sent something or has gone
                    let cand: Vec<usize> = srvs
                        .iter()
                        .enumerate()
                        .filter(|(_, s)| s.server.is_some() && s.backlog.first().map(|c| conns[*c].queued > 0 || conns[*c].tx.is_none()).unwrap_or(false))
                        .map(|(i, _)| i)
                        .collect();
                    if cand.is_empty() {
                        continue;
                    }
                    let s = cand[rng.below(cand.len() as u64) as usize];
                    let c = srvs[s].backlog.remove(0);
                    let server = srvs[s].server.take().unwrap();
                    ops.push(format!("accept {}", s));
                    let _ = ip::take_trace();
                    // a signal handled by this thread while it waits in accept() or for the first message: `accept` consumes the
                    // server, so the caller could not retry — the rendezvous must survive it
                    let sig = rng.below(4);
                    if sig == 1 || sig == 3 {
                        ip::EINTR_ACCEPT_NEXT.store(1 + rng.below(2), Ordering::SeqCst);
                    }
                    if sig == 2 || sig == 3 {
                        ip::EINTR_RECVMSG_NEXT.store(1, Ordering::SeqCst);
                    }
                    if sig != 0 {
                        case.tags.push("accept_interrupted".into());
                    }
                    let acc = server.accept();
                    ip::EINTR_ACCEPT_NEXT.store(0, Ordering::SeqCst);
                    ip::EINTR_RECVMSG_NEXT.store(0, Ordering::SeqCst);
                    for (_, e) in ip::take_trace() {
                        if let Ev::Accept { r, cloexec: false, .. } = e {
                            if r >= 0 && !ip::fd_cloexec(r) {
                                case.fail(format!("the connection accepted by a one-shot server (descriptor {}) is inheritable (no close-on-exec)", r));
                            }
                        }
                    }
                    match acc {
                        Ok((rx, t)) => {
                            res.push(format!("accepted:{}:{}", c, t));
                            conns[c].rx = Some(rx);
                            conns[c].queued = conns[c].queued.saturating_sub(1);
                        },
                        Err(e) => {
                            res.push("err".into());
                            conns[c].reset = true;
                            // (accept also fails, legitimately, when the client closed without sending: the model knows)
                            if sig != 0 && (format!("{:?}", e).contains("Interrupted") || format!("{:?}", e).contains("code: 4")) {
                                case.fail(format!("accept() interrupted by a signal (EINTR while waiting in accept4 / for the first message) returned {:?}: the server is consumed,                                                    the client's connection and its messages are lost", e));
                            }
                        },
                    }
                    for b in srvs[s].backlog.drain(..) {
                        conns[b].reset = true;
                    }
                },
                16 if srvs.iter().any(|s| s.server.is_some()) => {
                    let live: Vec<usize> = srvs.iter().enumerate().filter(|(_, s)| s.server.is_some()).map(|(i, _)| i).collect();
                    let s = live[rng.below(live.len() as u64) as usize];
                    srvs[s].server = None;
                    for b in srvs[s].backlog.drain(..) {
                        conns[b].reset = true;
                    }
                    ops.push(format!("dropsrv {}", s));
                    res.push("ok".into());
                    case.tags.push("server_dropped_unused".into());
                },
                17 | 18 if conns.iter().any(|c| c.rx.is_some()) => {
                    let live: Vec<usize> = conns.iter().enumerate().filter(|(_, c)| c.rx.is_some()).map(|(i, _)| i).collect();
                    let c = live[rng.below(live.len() as u64) as usize];
                    ops.push(format!("recv {}", c));
                    match conns[c].rx.as_ref().unwrap().try_recv() {
                        Ok(t) => {
                            res.push(format!("msg:{}", t));
                            conns[c].queued = conns[c].queued.saturating_sub(1);
                        },
                        Err(TryRecvError::Empty) => res.push("empty".into()),
                        Err(TryRecvError::IpcError(IpcError::Disconnected)) => res.push("disc".into()),
                        Err(e) => {
                            res.push("error".into());
                            case.fail(format!("receive failed: {:?}", e));
                        },
                    }
                },
                19 if conns.iter().any(|c| c.rx.is_some()) => {
                    let c = conns.iter().position(|c| c.rx.is_some()).unwrap();
                    conns[c].rx = None;
                    conns[c].reset = true;
                    ops.push(format!("droprx {}", c));
                    res.push("ok".into());
                },
                _ => {},
            }
        }
        let _ = next_name_model;
        // observable resources now
        let live_srv = srvs.iter().filter(|s| s.server.is_some()).count();
        let rxn = conns.iter().filter(|c| c.rx.is_some()).count();
        let clients = conns.iter().filter(|c| c.tx.is_some()).count();
        let fs_now = ls(&root).len() - ls0.len();
        let fds_now = ip::proc_fds().len() - fds0;
        let listen = fds_now as i64 - rxn as i64 - clients as i64;
        if fs_now != live_srv {
            case.fail(format!("{} entries under the temp root for {} live servers: {:?}", fs_now, live_srv, ls(&root)));
        }
        case.pair(format!("oneshot {}", ops.join(" | ")), format!("{} ; fs={} listen={} rx={}", res.join(" "), fs_now, listen, rxn));
        // all names handed out so far in this case are pairwise distinct
        let mut seen = std::collections::HashSet::new();
        for nm in names.iter().flatten() {
            if !seen.insert(nm.clone()) {
                case.fail(format!("two servers were given the same name {}", nm));
            }
        }
        drop(srvs);
        drop(conns);
        drop(_g);
        let left = ls(&root);
        if left != ls0 {
            case.fail(format!("entries left under the temp root after everything was dropped: {:?}", left));
        }
        let fds1 = ip::proc_fds().len();
        if fds1 != fds0 {
            case.fail(format!("{} descriptors after the case, {} before", fds1, fds0));
        }
        case.nontrivial = ops.iter().any(|o| o.starts_with("accept")) || ops.iter().any(|o| o.starts_with("new ") && o != "new 0");
        case.key = ops.join("|");
        case.tags.sort();
        case.tags.dedup();
        case.emit();
    }
    // a client that sends far more than the socket buffers hold before the server accepts: its sends must wait, not fail,
    // and accept + the returned receiver must yield everything in order
    for b in 0..(if thorough { 12 } else { 3 }) {
        let mut case = Case::new(format!("oneshot-bulk-{}", b));
        let (server, name) = IpcOneShotServer::<Vec<u8>>::new().unwrap();
        let sizes: Vec<usize> = match b % 3 {
            0 => vec![7, 210_000, 1_000_000, 7],
            1 => (0..20).map(|k| if k % 4 == 1 { 60_000 } else { 100 + k * 3000 }).collect(),
            _ => vec![300_000, 300_000, 5, 300_000],
        };
        let sz = sizes.clone();
        let client = std::thread::spawn(move || {
            let tx: IpcSender<Vec<u8>> = IpcSender::connect(name).unwrap();
            let mut errs = Vec::new();
            for (k, n) in sz.iter().enumerate() {
                let data: Vec<u8> = (0..*n).map(|i| (i as u8).wrapping_mul(13).wrapping_add(k as u8)).collect();
                if let Err(e) = tx.send(data) {
                    errs.push(format!("send #{} ({} bytes) failed: {:?}", k, n, e));
                }
            }
            errs
        });
        std::thread::sleep(std::time::Duration::from_millis(if b % 2 == 0 { 30 } else { 0 }));
        let got = crate::util::with_watchdog(20, move || {
            let mut out: Vec<Vec<u8>> = Vec::new();
            match server.accept() {
                Ok((rx, first)) => {
                    out.push(first);
                    loop {
                        match rx.recv() {
                            Ok(d) => out.push(d),
                            Err(_) => break,
                        }
                    }
                },
                Err(_) => {},
            }
            out
        });
        match got {
            None => case.fail("accept / receive of a bulk client did not finish within 20 s".into()),
            Some(out) => {
                let lens: Vec<usize> = out.iter().map(|d| d.len()).collect();
                if lens != sizes {
                    case.fail(format!("client sent messages of sizes {:?} before accept; accept + receiver yielded {:?}", sizes, lens));
                } else {
                    for (k, d) in out.iter().enumerate() {
                        if d.iter().enumerate().any(|(i, x)| *x != (i as u8).wrapping_mul(13).wrapping_add(k as u8)) {
                            case.fail(format!("message #{} arrived with different contents", k));
                        }
                    }
                }
            },
        }
        if case.oracle.is_none() {
            for e in client.join().unwrap() {
                case.fail(e);
            }
        }
        case.pair("noop".into(), "ok".into());
        case.nontrivial = true;
        case.key = format!("bulk:{}", b);
        case.tags.push("client=bulk_before_accept".into());
        case.emit();
    }
    // names: many consecutive servers, then many alive at once
    {
        let mut case = Case::new("oneshot-names".into());
        let total = if thorough { 20_000 } else { 3_000 };
        let mut seen = std::collections::HashSet::new();
        // Consecutive servers: the earlier ones are gone, so the temp-dir generator may legitimately hit an old name again — with
        // its default of 6 random characters (62^6 names) that happens in about 1 of 300 thorough runs (birthday bound), once.
        // Three or more repeats among these names cannot be chance (p < 1e-7); a generator with a small name space (3 characters:
        // ~19 repeats expected in 3 000 names) is far above that.
        let mut repeats = 0usize;
        let mut first_repeat = String::new();
        for k in 0..total {
            match IpcOneShotServer::<u64>::new() {
                Ok((_s, name)) => {
                    if !seen.insert(name.clone()) {
                        repeats += 1;
                        if first_repeat.is_empty() {
                            first_repeat = format!("server #{} was given the name {} again", k, name);
                        }
                    }
                },
                Err(e) => {
                    case.fail(format!("new failed: {:?}", e));
                    break;
                },
            }
        }
        if repeats >= 3 {
            case.fail(format!("{} of {} consecutive servers were given a name an earlier server of this process had ({}): the names are drawn from too small a space",
                              repeats, total, first_repeat));
        }
        case.tags.push(format!("name_repeats_over_time={}", repeats));
        // servers alive at the same time: never the same name (the directory exists), whatever the generator
        let mut alive = Vec::new();
        let mut live_names = std::collections::HashSet::new();
        for _ in 0..200 {
            if let Ok((s, name)) = IpcOneShotServer::<u64>::new() {
                if !live_names.insert(name.clone()) {
                    case.fail(format!("two servers alive at the same time were given the name {}", name));
                }
                alive.push(s);
            }
        }
        drop(alive);
        if !ls(&root).is_empty() {
            case.fail(format!("entries left under the temp root: {:?}", ls(&root).len()));
        }
        case.pair("noop".into(), "ok".into());
        case.nontrivial = true;
        case.key = "names".into();
        case.tags.push(format!("names_checked={}", total + 200));
        case.emit();
    }
    let _ = std::fs::remove_dir_all(&root);
}
