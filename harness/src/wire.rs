//! Scenario `wire`: typed values with embedded endpoints through the real serialiser / deserialiser.
//!  mode enc  (C01 values, C04): value -> IpcSender::send -> raw bytes + attachments observed at the OS level
//!                               -> forwarded -> IpcReceiver::recv -> value; bytes, attachment order and value compared
//!                               with the Lean model (`enc`, `dec`), endpoint identity probed with nonces.
//!  mode dec  (C16): arbitrary bytes + arbitrary attachments decoded as each type of a 12-type family.
use crate::interpose as ip;
use crate::util::*;
use crate::value::*;
use ipc_channel::ipc::{self, IpcOneShotServer, IpcReceiver, IpcSender, IpcSharedMemory};
use ipc_channel::platform::{self, OsIpcChannel, OsIpcReceiver, OsIpcSender, OsIpcSharedMemory};
use std::cell::RefCell;
use std::panic::{catch_unwind, AssertUnwindSafe};

pub enum Kept {
    OsRx(OsIpcReceiver),
    OsTx(OsIpcSender),
    IpcRx(IpcReceiver<u64>),
    IpcTx(IpcSender<u64>),
}
#[derive(Default)]
pub struct World {
    pub kept: Vec<Kept>,
    pub regions: Vec<Vec<u8>>,
    /// senders handed out so far (label, handle): a later request may get a clone of one of them — the same channel twice
    /// in one value
    pub senders: Vec<(usize, ipc_channel::ipc::OpaqueIpcSender)>,
    pub reuse: u64,
    /// only the `enc` mode (whose request text is derived from the labels inside the value) embeds the same channel twice
    pub allow_reuse: bool,
}
impl World {
    pub fn region_bytes(&mut self, rng: &mut Rng) -> (usize, Vec<u8>) {
        let l = self.regions.len();
        let mut d = (l as u64).to_le_bytes().to_vec();
        let n = rng.below(40) as usize;
        d.extend(rng.bytes(n));
        self.regions.push(d.clone());
        (l, d)
    }
}
impl Endpoints for World {
    fn sender(&mut self) -> Value {
        // every third request (after the first) re-uses an earlier channel
        self.reuse += 1;
        if self.allow_reuse && self.reuse % 3 == 0 && !self.senders.is_empty() {
            let (l, s) = &self.senders[(self.reuse as usize / 3) % self.senders.len()];
            return Value::Sender(*l, s.clone());
        }
        let (tx, rx) = ipc::channel::<u64>().unwrap();
        self.kept.push(Kept::IpcRx(rx));
        let o = tx.to_opaque();
        self.senders.push((self.kept.len() - 1, o.clone()));
        Value::Sender(self.kept.len() - 1, o)
    }
    fn receiver(&mut self) -> Value {
        let (tx, rx) = ipc::channel::<u64>().unwrap();
        self.kept.push(Kept::IpcTx(tx));
        Value::Receiver(self.kept.len() - 1, RefCell::new(Some(rx.to_opaque())))
    }
    fn shm(&mut self, rng: &mut Rng) -> Value {
        let (l, d) = self.region_bytes(rng);
        Value::Shm(l, IpcSharedMemory::from_bytes(&d))
    }
}

fn dbg_fd(s: &str) -> i32 {
    let key = if s.contains("SharedFileDescriptor(") { "SharedFileDescriptor(" } else { "value: " };
    let i = s.find(key).unwrap() + key.len();
    s[i..].split(|c: char| !c.is_ascii_digit() && c != '-').next().unwrap().parse().unwrap()
}
fn kept_fd(k: &Kept) -> i32 {
    match k {
        Kept::OsRx(r) => dbg_fd(&format!("{:?}", r)),
        Kept::OsTx(t) => dbg_fd(&format!("{:?}", t)),
        Kept::IpcRx(r) => dbg_fd(&format!("{:?}", r)),
        Kept::IpcTx(t) => dbg_fd(&format!("{:?}", t)),
    }
}
/// the socket pair is bidirectional: probe at the descriptor level so that labels do not depend on which end a
/// decoded handle claims to be
fn kept_try(k: &Kept) -> Option<u64> {
    let mut buf = [0u8; 64];
    let n = unsafe { libc::recv(kept_fd(k), buf.as_mut_ptr() as *mut _, 64, libc::MSG_DONTWAIT) };
    if n >= 16 {
        Some(u64::from_le_bytes(buf[8..16].try_into().unwrap()))
    } else {
        None
    }
}
fn kept_send(k: &Kept, v: u64) -> bool {
    let mut buf = [0u8; 16];
    buf[..8].copy_from_slice(&8u64.to_le_bytes());
    buf[8..].copy_from_slice(&v.to_le_bytes());
    let n = unsafe { libc::send(kept_fd(k), buf.as_ptr() as *const _, 16, libc::MSG_DONTWAIT | libc::MSG_NOSIGNAL) };
    n == 16
}

/// give every received endpoint its label by probing with nonces; returns problems found
pub fn probe_labels(v: &mut Value, w: &World, nonce0: u64) -> Vec<String> {
    let mut problems = Vec::new();
    let mut nonce = nonce0;
    v.walk_mut(&mut |leaf| match leaf {
        Value::Sender(l, s) if *l == usize::MAX => {
            nonce += 1;
            let t: IpcSender<u64> = s.clone().to();
            if t.send(nonce).is_err() {
                problems.push("received sender cannot send".into());
                return;
            }
            let mut hits = Vec::new();
            for (i, k) in w.kept.iter().enumerate() {
                if let Some(x) = kept_try(k) {
                    if x == nonce {
                        hits.push(i);
                    } else {
                        problems.push(format!("stray value {} on channel {}", x, i));
                    }
                }
            }
            if hits.len() == 1 {
                *l = hits[0];
            } else {
                problems.push(format!("nonce sent through a received sender arrived on {:?}", hits));
            }
        },
        Value::Receiver(l, cell) if *l == usize::MAX => {
            for (i, k) in w.kept.iter().enumerate() {
                kept_send(k, i as u64);
            }
            let r = cell.borrow_mut().take();
            if let Some(r) = r {
                let t: IpcReceiver<u64> = r.to();
                match t.try_recv() {
                    Ok(c) if (c as usize) < w.kept.len() => *l = c as usize,
                    Ok(c) => problems.push(format!("received receiver yields unknown value {}", c)),
                    Err(e) => problems.push(format!("received receiver yields nothing: {:?}", e)),
                }
                *cell.borrow_mut() = Some(t.to_opaque());
            }
        },
        Value::Shm(l, m) if *l == usize::MAX => {
            if m.len() >= 8 {
                let c = u64::from_le_bytes(m[..8].try_into().unwrap()) as usize;
                if c < w.regions.len() && w.regions[c][..] == m[..] {
                    *l = c;
                } else {
                    problems.push("received region has unknown contents".into());
                }
            } else {
                problems.push("received region shorter than its label".into());
            }
        },
        _ => {},
    });
    problems
}

/// rig: a typed sender whose raw output we can observe, and a typed receiver we can feed raw input
pub struct Rig {
    pub tx: IpcSender<Dyn>,
    pub tap: OsIpcReceiver,
    pub inject: OsIpcSender,
    pub rx: IpcReceiver<Dyn>,
}
pub fn rig() -> Rig {
    // IpcSender<Dyn> wrapping an OS sender whose receiving end we keep
    let (os_tx, tap) = platform::channel().unwrap();
    let (srv, name) = IpcOneShotServer::<IpcSender<Dyn>>::new().unwrap();
    let c = OsIpcSender::connect(name).unwrap();
    c.send(&0u64.to_le_bytes(), vec![OsIpcChannel::Sender(os_tx)], vec![]).unwrap();
    let (_r, tx) = srv.accept().unwrap();
    // IpcReceiver<Dyn> wrapping an OS receiver whose sending end we keep
    let (inject, os_rx) = platform::channel().unwrap();
    let (srv, name) = IpcOneShotServer::<IpcReceiver<Dyn>>::new().unwrap();
    let c = OsIpcSender::connect(name).unwrap();
    c.send(&0u64.to_le_bytes(), vec![OsIpcChannel::Receiver(os_rx)], vec![]).unwrap();
    let (_r2, rx) = srv.accept().unwrap();
    Rig { tx, tap, inject, rx }
}

/// like `rig`, but the bootstrap (which decodes endpoints) happens on a helper thread, so the calling thread has not
/// decoded anything yet
pub fn rig_plain() -> Rig {
    struct SendRig(Rig);
    unsafe impl Send for SendRig {}
    std::thread::spawn(|| SendRig(rig())).join().unwrap().0
}

fn collect_kinds(v: &Value, out: &mut Vec<char>) {
    match v {
        Value::Opt(Some(x)) | Value::Var(_, x) => collect_kinds(x, out),
        Value::Seq(vs) | Value::Tup(vs) => vs.iter().for_each(|x| collect_kinds(x, out)),
        Value::Sender(..) => out.push('s'),
        Value::Receiver(..) => out.push('r'),
        _ => {},
    }
}

pub fn enc_case(rng: &mut Rng, rig: &Rig, id: String, schema: Schema) -> Case {
    let mut case = Case::new(id);
    let mut w = World::default();
    w.allow_reuse = true;
    let mut budget = 24usize;
    let v = gen_value(rng, &schema, &mut w, &mut budget);
    let vtext = v.text();
    let stext = schema.text();
    let mut kinds = Vec::new();
    collect_kinds(&v, &mut kinds);
    case.tags.push(format!("endpoints={}", kinds.len().min(9)));
    case.tags.push(format!("regions={}", w.regions.len().min(9)));
    case.tags.push(format!("size={}", v.size().min(30) / 5 * 5));
    case.nontrivial = v.size() > 1;
    case.key = format!("{}|{}", stext, vtext);
    if let Err(e) = rig.tx.send(Dyn(v)) {
        case.fail(format!("send failed: {:?}", e));
        return case;
    }
    let (bytes, mut chans, shms) = match rig.tap.recv() {
        Ok(x) => x,
        Err(e) => {
            case.fail(format!("tap recv failed: {:?}", e));
            return case;
        },
    };
    case.pair(format!("enc {} | {}", stext, vtext), format!("{} nch={} nshm={}", hex(&bytes), chans.len(), shms.len()));
    // forward to the typed receiver
    if chans.len() != kinds.len() {
        case.fail(format!("{} channel attachments for {} embedded endpoints", chans.len(), kinds.len()));
        for c in chans.iter_mut() {
            drop(c.to_sender());
        }
        return case;
    }
    let fwd: Vec<OsIpcChannel> = chans
        .iter_mut()
        .zip(kinds.iter())
        .map(|(c, k)| if *k == 's' { OsIpcChannel::Sender(c.to_sender()) } else { OsIpcChannel::Receiver(c.to_receiver()) })
        .collect();
    rig.inject.send(&bytes, fwd, shms).unwrap();
    expect(&schema);
    match rig.rx.recv() {
        Ok(Dyn(mut got)) => {
            for p in probe_labels(&mut got, &w, rng.next() >> 8) {
                case.fail(p);
            }
            let gtext = got.text();
            if gtext != vtext {
                case.fail(format!("received value differs: sent `{}` got `{}`", vtext, gtext));
            }
            // the model decodes the model's own encoding of the value, with the value's attachments
            case.pair(format!("rt {} | {}", stext, vtext), format!("ok {}", gtext));
        },
        Err(e) => case.fail(format!("typed receive failed: {:?}", e)),
    }
    case
}

// ------------------------------------------------------------------------------------------- C16
pub struct RawAtt {
    pub kind: char, // 's' sender of channel l, 'r' receiver of channel l
    pub label: usize,
}

fn mutate(rng: &mut Rng, b: &mut Vec<u8>) {
    match rng.below(7) {
        0 if !b.is_empty() => {
            let i = rng.below(b.len() as u64) as usize;
            b[i] ^= 1 << rng.below(8);
        },
        1 if !b.is_empty() => {
            let n = rng.below(b.len() as u64) as usize;
            b.truncate(n);
        },
        2 => {
            let n = rng.below(9) as usize;
            b.extend(rng.bytes(n))
        },
        3 if b.len() >= 8 => {
            // rewrite an aligned-looking 8-byte word to a small number (likely an index or a length)
            let i = rng.below((b.len() - 7) as u64) as usize;
            let v = [0u64, 1, 2, 3, 7, u64::MAX, 1 << 40][rng.below(7) as usize];
            b[i..i + 8].copy_from_slice(&v.to_le_bytes());
        },
        4 if !b.is_empty() => {
            let i = rng.below(b.len() as u64) as usize;
            b[i] = rng.next() as u8;
        },
        5 if b.len() >= 2 => {
            let i = rng.below(b.len() as u64) as usize;
            b.remove(i);
        },
        _ => {
            let i = rng.below(b.len() as u64 + 1) as usize;
            b.insert(i, rng.next() as u8);
        },
    }
}

/// encode a value of the schema with the model-independent real serialiser to get a valid starting point
fn valid_encoding(rng: &mut Rng, rig: &Rig, schema: &Schema) -> (Vec<u8>, usize, usize) {
    let mut w = World::default();
    let mut budget = 12usize;
    let v = gen_value(rng, schema, &mut w, &mut budget);
    rig.tx.send(Dyn(v)).unwrap();
    let (bytes, mut chans, shms) = rig.tap.recv().unwrap();
    let n = (chans.len(), shms.len());
    for c in chans.iter_mut() {
        drop(c.to_sender());
    }
    (bytes, n.0, n.1)
}

pub fn dec_case(rng: &mut Rng, rig: &Rig, id: String, schema: &Schema, style: u64) -> Case {
    let mut case = Case::new(id);
    let fds_before = ip::proc_fds();
    // bytes
    let (mut bytes, mut nch, mut nshm) = match style {
        0 => {
            let big = rng.chance(1, 10);
            let n = rng.below(if big { 4096 } else { 64 }) as usize;
            (rng.bytes(n), rng.below(4) as usize, rng.below(3) as usize)
        },
        _ => valid_encoding(rng, rig, schema),
    };
    if style >= 2 {
        for _ in 0..rng.range(1, 3) {
            mutate(rng, &mut bytes);
        }
    }
    if style >= 3 {
        nch = rng.below(9) as usize;
        nshm = rng.below(4) as usize;
    }
    // attachments
    let mut w = World::default();
    let mut atts = Vec::new();
    let mut att_txt = Vec::new();
    for _ in 0..nch {
        let (tx, rx) = platform::channel().unwrap();
        if rng.chance(2, 3) {
            w.kept.push(Kept::OsRx(rx));
            atts.push(OsIpcChannel::Sender(tx));
            att_txt.push(format!("s{}", w.kept.len() - 1));
        } else {
            w.kept.push(Kept::OsTx(tx));
            atts.push(OsIpcChannel::Receiver(rx));
            att_txt.push(format!("r{}", w.kept.len() - 1));
        }
    }
    let mut shms = Vec::new();
    let mut shm_txt = Vec::new();
    for _ in 0..nshm {
        let (l, d) = w.region_bytes(rng);
        shms.push(OsIpcSharedMemory::from_bytes(&d));
        shm_txt.push(l.to_string());
    }
    rig.inject.send(&bytes, atts, shms).unwrap();
    expect(schema);
    let res = catch_unwind(AssertUnwindSafe(|| rig.rx.recv()));
    let (imp, mut value) = match res {
        Err(_) => ("panic".to_string(), None),
        Ok(Err(_)) => ("err".to_string(), None),
        Ok(Ok(Dyn(mut v))) => {
            for p in probe_labels(&mut v, &w, rng.next() >> 8) {
                case.fail(p);
            }
            (format!("ok {}", v.text()), Some(v))
        },
    };
    case.tags.push(format!("dec={}", imp.split(' ').next().unwrap()));
    case.tags.push(format!("style={}", style));
    case.nontrivial = true;
    case.key = format!("{}|{}|{}|{}", schema.text(), hex(&bytes), att_txt.join(","), shm_txt.join(","));
    case.pair(
        format!("dec {} | {} | {} | {}", schema.text(), hex(&bytes), if att_txt.is_empty() { "-".into() } else { att_txt.join(",") }, if shm_txt.is_empty() { "-".into() } else { shm_txt.join(",") }),
        imp.clone(),
    );
    if imp == "panic" {
        case.fail("decoding panicked".into());
    }
    // release: once the decoded value (if any) is dropped, every attachment must be gone
    let dropped = catch_unwind(AssertUnwindSafe(|| drop(value.take())));
    if dropped.is_err() {
        case.fail("dropping the decoded value panicked".into());
    }
    for (i, k) in w.kept.iter().enumerate() {
        match k {
            Kept::OsRx(r) => {
                // drain probe traffic, then the channel must be disconnected
                let mut verdict = None;
                for _ in 0..64 {
                    match r.try_recv() {
                        Ok(_) => continue,
                        Err(e) => {
                            // ECONNRESET: the peer was closed with unread probe packets in its queue -- closed all the same
                            verdict = Some(e.channel_is_closed() || format!("{:?}", e).contains("Errno(104)"));
                            break;
                        },
                    }
                }
                if verdict != Some(true) {
                    case.fail(format!("attached sender of channel {} is still open after the message and the value were dropped", i));
                }
            },
            Kept::OsTx(t) => {
                if t.send(&[1], vec![], vec![]).is_ok() {
                    // a send may succeed once into a closed-but-lingering socket? no: seqpacket to a closed peer fails
                    case.fail(format!("attached receiver of channel {} is still open after the message and the value were dropped", i));
                }
            },
            _ => {},
        }
    }
    drop(w);
    let fds_after = ip::proc_fds();
    if fds_after != fds_before {
        let extra: Vec<_> = fds_after.difference(&fds_before).collect();
        if !extra.is_empty() {
            case.fail(format!("descriptors leaked by decode/drop: {:?}", extra));
        }
    }
    case
}

// ------------------------------------------------------------------------------------------- C14 (receive inside a deserialisation)
fn collect_atts(v: &Value, chans: &mut Vec<String>, shms: &mut Vec<String>) {
    match v {
        Value::Opt(Some(x)) | Value::Var(_, x) => collect_atts(x, chans, shms),
        Value::Seq(vs) | Value::Tup(vs) => vs.iter().for_each(|x| collect_atts(x, chans, shms)),
        Value::Sender(l, _) => chans.push(format!("s{}", l)),
        Value::Receiver(l, _) => chans.push(format!("r{}", l)),
        Value::Shm(l, _) => shms.push(l.to_string()),
        _ => {},
    }
}

pub fn nrecv_case(rng: &mut Rng, rig: &Rig, id: String) -> Case {
    let mut case = Case::new(id);
    let mut w = World::default();
    // inner message, waiting on its own channel
    let inner_schema = gen_schema(rng, 1, true);
    let mut budget = 8usize;
    let inner_v = gen_value(rng, &inner_schema, &mut w, &mut budget);
    let inner_text = inner_v.text();
    let (itx, irx) = ipc::channel::<Dyn>().unwrap();
    itx.send(Dyn(inner_v)).unwrap();
    NESTED_RX.with(|n| *n.borrow_mut() = vec![Some((irx, inner_schema.clone()))]);
    NESTED_OUT.with(|o| o.borrow_mut().clear());
    // outer message: attachments before, the nested receive, attachments after
    let nb = rng.below(3) as usize;
    let na = rng.below(3) as usize;
    let mut parts: Vec<Schema> = (0..nb).map(|_| gen_schema(rng, 1, true)).collect();
    parts.push(Schema::RecvInside(0));
    parts.extend((0..na).map(|_| gen_schema(rng, 1, true)));
    let outer_schema = Schema::Tup(parts);
    let mut budget = 16usize;
    let outer_v = gen_value(rng, &outer_schema, &mut w, &mut budget);
    let outer_text = outer_v.text();
    let (mut chl, mut shl) = (Vec::new(), Vec::new());
    collect_atts(&outer_v, &mut chl, &mut shl);
    let mut kinds = Vec::new();
    collect_kinds(&outer_v, &mut kinds);
    rig.tx.send(Dyn(outer_v)).unwrap();
    let (bytes, mut chans, shms) = rig.tap.recv().unwrap();
    let fwd: Vec<OsIpcChannel> = chans
        .iter_mut()
        .zip(kinds.iter())
        .map(|(c, k)| if *k == 's' { OsIpcChannel::Sender(c.to_sender()) } else { OsIpcChannel::Receiver(c.to_receiver()) })
        .collect();
    rig.inject.send(&bytes, fwd, shms).unwrap();
    expect(&outer_schema);
    let res = catch_unwind(AssertUnwindSafe(|| rig.rx.recv()));
    let outer_imp = match res {
        Err(_) => "panic".to_string(),
        Ok(Err(_)) => "err".to_string(),
        Ok(Ok(Dyn(mut v))) => {
            for p in probe_labels(&mut v, &w, rng.next() >> 8) {
                case.fail(format!("outer: {}", p));
            }
            format!("ok {}", v.text())
        },
    };
    let inner_imp = match NESTED_OUT.with(|o| o.borrow_mut().pop()) {
        None => "not-received".to_string(),
        Some(Err(e)) => format!("err {}", e),
        Some(Ok(mut v)) => {
            for p in probe_labels(&mut v, &w, rng.next() >> 8) {
                case.fail(format!("inner: {}", p));
            }
            format!("ok {}", v.text())
        },
    };
    case.pair(
        format!(
            "dec {} | {} | {} | {}",
            outer_schema.text(),
            hex(&bytes),
            if chl.is_empty() { "-".into() } else { chl.join(",") },
            if shl.is_empty() { "-".into() } else { shl.join(",") }
        ),
        outer_imp.clone(),
    );
    case.pair(format!("rt {} | {}", inner_schema.text(), inner_text), inner_imp.clone());
    if outer_imp != format!("ok {}", outer_text) {
        case.fail(format!("outer message with a receive inside its deserialisation: sent `{}` got `{}`", outer_text, outer_imp));
    }
    if inner_imp != format!("ok {}", inner_text) {
        case.fail(format!("message received inside a deserialisation: sent `{}` got `{}`", inner_text, inner_imp));
    }
    case.nontrivial = !chl.is_empty() || !shl.is_empty();
    case.key = format!("{}|{}|{}", outer_schema.text(), outer_text, inner_text);
    case.tags.push(format!("nrecv_before={}", nb));
    case.tags.push(format!("nrecv_after={}", na));
    case
}

// ------------------------------------------------------------------------------------------- C14
/// a typed sender whose raw output can be observed at the OS level
pub fn tapped_sender() -> (IpcSender<Dyn>, OsIpcReceiver) {
    let (os_tx, tap) = platform::channel().unwrap();
    let (srv, name) = IpcOneShotServer::<IpcSender<Dyn>>::new().unwrap();
    let c = OsIpcSender::connect(name).unwrap();
    c.send(&0u64.to_le_bytes(), vec![OsIpcChannel::Sender(os_tx)], vec![]).unwrap();
    let (_r, tx) = srv.accept().unwrap();
    (tx, tap)
}

struct SideGen<'a> {
    rng: &'a mut Rng,
    world: World,
    /// kind of each labelled channel endpoint: 's' or 'r'
    kinds: Vec<char>,
    transports: &'a [(IpcSender<Dyn>, Option<OsIpcReceiver>)],
    log: std::rc::Rc<RefCell<Vec<bool>>>,
}
impl<'a> SideGen<'a> {
    /// returns (text, value) for a node list
    fn nodes(&mut self, depth: usize, n: usize, allow_fail: bool) -> (String, Value) {
        let mut txt = Vec::new();
        let mut vals = Vec::new();
        for _ in 0..n {
            let k = self.rng.below(if depth > 0 { 12 } else { 9 });
            match k {
                0 | 1 => {
                    let b = self.rng.below(256);
                    txt.push(format!("data {}", b));
                    vals.push(Value::Int(1, b));
                },
                2 | 3 => {
                    let v = self.world.sender();
                    self.kinds.push('s');
                    txt.push(format!("snd {}", self.world.kept.len() - 1));
                    vals.push(v);
                },
                4 | 5 => {
                    let v = self.world.receiver();
                    self.kinds.push('r');
                    txt.push(format!("rcv {}", self.world.kept.len() - 1));
                    vals.push(v);
                },
                6 => {
                    let v = self.world.shm(self.rng);
                    txt.push(format!("shm {}", self.world.regions.len() - 1));
                    vals.push(v);
                },
                7 => {
                    txt.push("eshm".into());
                    vals.push(Value::EShm);
                },
                8 => {
                    if allow_fail && self.rng.chance(1, 2) {
                        txt.push("fail".into());
                        vals.push(Value::Fail);
                    } else {
                        txt.push("data 7".into());
                        vals.push(Value::Int(1, 7));
                    }
                },
                _ => {
                    let t = 1 + self.rng.below(self.transports.len() as u64 - 1) as usize;
                    let m = self.rng.below(4) as usize;
                    let (it, iv) = self.nodes(depth - 1, m, true);
                    txt.push(format!("nested {} {} {}", t, m, it).trim_end().to_string());
                    vals.push(Value::Nested(self.transports[t].0.clone(), RefCell::new(Some(Box::new(iv))), self.log.clone()));
                },
            }
        }
        (txt.join(" "), Value::Tup(vals))
    }
}

fn opaque_fd(c: &platform::OsOpaqueIpcChannel) -> i32 {
    let s = format!("{:?}", c);
    let i = s.find("fd: ").unwrap() + 4;
    s[i..].split(|c: char| !c.is_ascii_digit() && c != '-').next().unwrap().parse().unwrap()
}

pub fn side_case(rng: &mut Rng, id: String) -> Case {
    let mut case = Case::new(id);
    // transports 0..4; some of them have no receiver any more (OS-level send fails)
    let mut transports = Vec::new();
    let mut osfail = Vec::new();
    for t in 0..4 {
        let (tx, tap) = tapped_sender();
        if t > 0 && rng.chance(1, 5) {
            drop(tap);
            osfail.push(t.to_string());
            transports.push((tx, None));
        } else {
            transports.push((tx, Some(tap)));
        }
    }
    let log = std::rc::Rc::new(RefCell::new(Vec::new()));
    let mut g = SideGen { rng, world: World::default(), kinds: Vec::new(), transports: &transports, log: log.clone() };
    let nsends = 1 + g.rng.below(2) as usize;
    let mut sends_txt = Vec::new();
    let mut results = Vec::new();
    let mut has_nested = false;
    let mut has_fail = false;
    for _ in 0..nsends {
        let n = 1 + g.rng.below(5) as usize;
        let (t, v) = g.nodes(2, n, true);
        has_nested |= t.contains("nested");
        has_fail |= t.contains("fail");
        sends_txt.push(format!("send 0 {} {}", n, t));
        results.push(transports[0].0.send(Dyn(v)).is_ok());
    }
    // follow-on plain message on the same thread: exactly its own attachment
    let (t, v) = {
        let v = g.world.sender();
        g.kinds.push('s');
        (format!("snd {}", g.world.kept.len() - 1), Value::Tup(vec![v]))
    };
    sends_txt.push(format!("send 0 1 {}", t));
    results.push(transports[0].0.send(Dyn(v)).is_ok());
    let mut world = g.world;
    // the generator's own clones (kept to embed the same channel twice) must not count as "held by the library"
    world.senders.clear();
    let kinds = g.kinds;
    // what arrived at the OS level, per transport
    let mut msgs = Vec::new();
    let mut held = Vec::new();
    for (t, (_, tap)) in transports.iter().enumerate() {
        if let Some(tap) = tap {
            while let Ok((bytes, mut chans, shms)) = tap.try_recv() {
                let mut labels = Vec::new();
                for (j, c) in chans.iter().enumerate() {
                    let fd = opaque_fd(c);
                    let nonce = 0x5100_0000u64 + (t as u64) * 1000 + j as u64;
                    let mut buf = [0u8; 16];
                    buf[..8].copy_from_slice(&8u64.to_le_bytes());
                    buf[8..].copy_from_slice(&nonce.to_le_bytes());
                    unsafe { libc::send(fd, buf.as_ptr() as *const _, 16, libc::MSG_DONTWAIT | libc::MSG_NOSIGNAL) };
                    let mut hit = None;
                    for (i, k) in world.kept.iter().enumerate() {
                        if kept_try(k) == Some(nonce) {
                            hit = Some(i);
                        }
                    }
                    labels.push(match hit {
                        Some(i) => format!("{}{}", kinds[i], i),
                        None => "?".into(),
                    });
                }
                let mut sl = Vec::new();
                for m in shms.iter() {
                    let l = if m.len() >= 8 { u64::from_le_bytes(m[..8].try_into().unwrap()) as usize } else { usize::MAX };
                    sl.push(if l < world.regions.len() && world.regions[l][..] == m[..] { l.to_string() } else { "?".into() });
                }
                msgs.push(format!(
                    "{}:{}:{}:{}",
                    t,
                    hex(&bytes),
                    if labels.is_empty() { "-".into() } else { labels.join(",") },
                    if sl.is_empty() { "-".into() } else { sl.join(",") }
                ));
                for c in chans.iter_mut() {
                    held.push(c.to_sender());
                }
                drop(shms);
            }
        }
    }
    let b = |x: &bool| if *x { "ok" } else { "err" };
    let imp = format!(
        "res={} inner={} msgs={}",
        results.iter().map(b).collect::<Vec<_>>().join(","),
        log.borrow().iter().map(b).collect::<Vec<_>>().join(","),
        msgs.join(";")
    );
    case.pair(format!("side legacy=0 osfail={} | {}", osfail.join(","), sends_txt.join(" | ")), imp);
    case.nontrivial = has_nested || has_fail || !osfail.is_empty();
    case.key = sends_txt.join("|");
    case.tags.push(format!("nested={}", has_nested as u8));
    case.tags.push(format!("fail={}", has_fail as u8));
    case.tags.push(format!("osfail={}", osfail.len()));
    case.tags.push(format!("outer={}", results.iter().map(b).collect::<Vec<_>>().join(",")));
    // no trace: once the received attachments are dropped, every embedded channel is gone
    drop(held);
    drop(transports);
    for (i, k) in world.kept.iter().enumerate() {
        match k {
            Kept::IpcRx(r) => {
                let mut closed = false;
                for _ in 0..16 {
                    match r.try_recv() {
                        Ok(_) => continue,
                        Err(ipc::TryRecvError::IpcError(ipc::IpcError::Disconnected)) => {
                            closed = true;
                            break;
                        },
                        Err(ipc::TryRecvError::IpcError(ipc::IpcError::Io(e))) if e.raw_os_error() == Some(104) => {
                            closed = true;
                            break;
                        },
                        Err(_) => break,
                    }
                }
                if !closed {
                    case.fail(format!("sender of channel {} is still held by the library after all handles and messages were dropped", i));
                }
            },
            Kept::IpcTx(t) => {
                if t.send(1).is_ok() {
                    case.fail(format!("receiver of channel {} is still held by the library after all handles and messages were dropped", i));
                }
            },
            _ => {},
        }
    }
    case
}

pub fn run(args: &[String]) {
    let mode = arg(args, "--mode").unwrap_or("enc".into());
    let thorough = arg(args, "--tier").as_deref() == Some("thorough");
    let seed = arg_u64(args, "--seed", 1);
    let n = arg_u64(args, "--n", if thorough { 5000 } else { 400 });
    let mut rng = Rng::new(seed ^ 0x5157);
    if std::env::var("VH_PANIC_VERBOSE").is_err() {
        std::panic::set_hook(Box::new(|_| {}));
    }
    let rig = rig();
    match mode.as_str() {
        "enc" => {
            for i in 0..n {
                let endpoints = i % 3 != 0;
                let depth = 1 + (i % 3) as usize;
                let schema = gen_schema(&mut rng, depth, endpoints);
                enc_case(&mut rng, &rig, format!("enc-{}", i), schema).emit();
            }
        },
        "dec" => {
            let fam = family();
            for i in 0..n {
                let schema = &fam[(i as usize) % fam.len()];
                let style = (i / fam.len() as u64) % 4;
                // every 8th case runs on a brand-new thread with its own rig: thread-local tables start out empty there
                let c = if i % 8 == 7 {
                    let mut r2 = Rng::new(rng.next());
                    let schema = schema.clone();
                    let id = format!("dec-{}", i);
                    std::thread::spawn(move || {
                        let rig = rig_plain();
                        dec_case(&mut r2, &rig, id, &schema, style)
                    })
                    .join()
                    .unwrap_or_else(|_| {
                        let mut c = Case::new(format!("dec-{}", i));
                        c.fail("decoding panicked (fresh thread)".into());
                        c.pair("noop".into(), "ok".into());
                        c
                    })
                } else {
                    dec_case(&mut rng, &rig, format!("dec-{}", i), schema, style)
                };
                let stop = c.oracle.as_deref().map(|s| s.contains("panicked")).unwrap_or(false);
                c.emit();
                if stop {
                    // a panic inside the decoder may leave thread-local state behind: do not trust later cases
                    std::process::exit(0);
                }
            }
        },
        "side" => {
            for i in 0..n {
                side_case(&mut rng, format!("side-{}", i)).emit();
                if i % 4 == 0 {
                    nrecv_case(&mut rng, &rig, format!("nrecv-{}", i)).emit();
                }
            }
        },
        _ => panic!("unknown wire mode"),
    }
}
