//! Scenario `kindmix` (C16 / C19): an endpoint of one kind decoded as the other kind — a receiver sent where the receiving side
//! expects a sender, or a sender where it expects a receiver; at top level, inside an `Option`, inside a `Vec` next to endpoints
//! of the right kind — through recv, try_recv and a receiver set + `to`.  The OS transports cannot tell the two kinds apart (both
//! are sockets, the wire format carries an index only) and hand out an endpoint on the attached descriptor; a transport that can
//! tell must answer with an error.  No transport may panic.  Afterwards the same thread decodes a well-formed message.
use crate::util::*;
use ipc_channel::ipc::{self, IpcReceiver, IpcReceiverSet, IpcSelectionResult, IpcSender, OpaqueIpcMessage};
use serde::{Deserialize, Serialize};

fn decode<T>(rx: ipc::OpaqueIpcReceiver, path: u64) -> Result<Result<(), String>, ()>
where
    T: for<'de> Deserialize<'de> + Serialize + 'static,
{
    std::panic::catch_unwind(std::panic::AssertUnwindSafe(move || match path {
        0 => rx.to::<T>().recv().map(|_| ()).map_err(|e| format!("{:?}", e)),
        1 => rx.to::<T>().try_recv().map(|_| ()).map_err(|e| format!("{:?}", e)),
        _ => {
            let mut set = IpcReceiverSet::new().unwrap();
            set.add_opaque(rx).unwrap();
            let mut got: Option<OpaqueIpcMessage> = None;
            for ev in set.select().unwrap() {
                if let IpcSelectionResult::MessageReceived(_, m) = ev {
                    got = Some(m);
                    break;
                }
            }
            match got {
                Some(m) => m.to::<T>().map(|_| ()).map_err(|e| format!("{:?}", e)),
                None => Err("no message".into()),
            }
        },
    }))
    .map_err(|_| ())
}

fn one_case(id: String, shape: u64, path: u64) -> Case {
    let mut case = Case::new(id);
    let (_keep_tx, a_rx) = ipc::channel::<u32>().unwrap();
    let (a_tx, _keep_rx) = ipc::channel::<u32>().unwrap();
    let (good_tx, _good_rx) = ipc::channel::<u32>().unwrap();
    // sent with one kind, decoded with the other
    let r = match shape {
        0 => {
            let (tx, rx) = ipc::channel::<IpcReceiver<u32>>().unwrap();
            tx.send(a_rx).unwrap();
            decode::<IpcSender<u32>>(rx.to_opaque(), path)
        },
        1 => {
            let (tx, rx) = ipc::channel::<IpcSender<u32>>().unwrap();
            tx.send(a_tx).unwrap();
            decode::<IpcReceiver<u32>>(rx.to_opaque(), path)
        },
        2 => {
            let (tx, rx) = ipc::channel::<(u8, Option<IpcReceiver<u32>>)>().unwrap();
            tx.send((9, Some(a_rx))).unwrap();
            decode::<(u8, Option<IpcSender<u32>>)>(rx.to_opaque(), path)
        },
        _ => {
            // a well-kinded sender first, then the mismatched one
            let (tx, rx) = ipc::channel::<(IpcSender<u32>, Vec<IpcSender<u32>>)>().unwrap();
            tx.send((good_tx.clone(), vec![a_tx])).unwrap();
            decode::<(IpcSender<u32>, Vec<IpcReceiver<u32>>)>(rx.to_opaque(), path)
        },
    };
    let what = match r {
        Err(()) => {
            case.fail(format!("kind-mismatch-panic: an attached {} decoded as the other kind (shape {}, path {}) panicked the receiving thread instead of giving a result",
                              if shape == 0 || shape == 2 { "receiver" } else { "sender" }, shape, path));
            "panic"
        },
        Ok(Ok(())) => "endpoint",
        Ok(Err(_)) => "error",
    };
    // the thread is still able to decode
    let (tx, rx) = ipc::channel::<(u32, IpcSender<u32>)>().unwrap();
    tx.send((5, good_tx)).unwrap();
    match std::panic::catch_unwind(std::panic::AssertUnwindSafe(|| rx.recv().map(|m| m.0))) {
        Ok(Ok(5)) => {},
        other => case.fail(format!("after the mismatched message a well-formed one is not decoded: {:?}", other.map(|r| r.map_err(|e| format!("{:?}", e))).map_err(|_| "panic"))),
    }
    case.pair("noop".into(), "ok".into());
    case.nontrivial = true;
    case.key = format!("kindmix:{}:{}", shape, path);
    case.tags.push(format!("outcome={}", what));
    case
}

pub fn run(_args: &[String]) {
    // the panic messages of the cases that do panic would flood stderr
    std::panic::set_hook(Box::new(|_| {}));
    let mut n = 0;
    for shape in 0..4 {
        for path in 0..3 {
            one_case(format!("kindmix-{}", n), shape, path).emit();
            n += 1;
        }
    }
}
