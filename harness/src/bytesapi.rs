//! Scenario `bytesapi` (C01, C04, C19): the byte-channel API (`ipc::bytes_channel`, `IpcBytesSender`, `IpcBytesReceiver`) —
//! raw payloads of every size class sent and received with `recv` / `try_recv`, sender clones, disconnection, and
//! byte-channel endpoints embedded in typed messages (senders cloned into the message, receivers moved, with a backlog that
//! must survive the transfer).  The program is also written as a program of the ideal FIFO (`ideal …` / `unix …` request
//! lines), so the same seeded program is compared on every build.
use crate::util::*;
use ipc_channel::ipc::{self, IpcBytesReceiver, IpcBytesSender, IpcError, IpcReceiver, IpcSender, TryRecvError};
use serde::{Deserialize, Serialize};
use std::collections::VecDeque;

#[derive(Serialize, Deserialize)]
struct Carrier {
    tag: u64,
    bs: Vec<(u32, IpcBytesSender)>,
    br: Vec<(u32, IpcBytesReceiver)>,
}

enum Tx {
    B(IpcBytesSender),
    T(IpcSender<Carrier>),
}
enum Rx {
    B(IpcBytesReceiver),
    T(IpcReceiver<Carrier>),
}
struct Chan {
    bytes: bool,
    senders: Vec<Tx>,
    receiver: Option<Rx>,
    /// payloads sent successfully and not yet received, with their tags (byte channels)
    fifo: VecDeque<(u64, Vec<u8>)>,
    queued: usize,
}

fn payload(rng: &mut Rng, tag: u64, max: usize) -> Vec<u8> {
    let len = [0usize, 1, 7, 8, 100, max - 1, max, max + 1, 2 * max + 5][rng.below(9) as usize];
    let mut v = rng.bytes(len);
    for (i, b) in tag.to_le_bytes().iter().enumerate() {
        if i < v.len() {
            v[i] = *b;
        }
    }
    v
}

pub fn program(rng: &mut Rng, nops: usize, max: usize) -> (Vec<String>, Vec<String>, Vec<String>) {
    let mut chans: Vec<Chan> = Vec::new();
    let mut ops = Vec::new();
    let mut results = Vec::new();
    let mut problems = Vec::new();
    let mut tag = 0u64;
    for _ in 0..nops {
        let n = chans.len();
        let k = if n == 0 { 0 } else { rng.below(16) };
        match k {
            0 | 1 if n < 6 => {
                // typed carriers get the low numbers only by chance; byte channels may be embedded in any typed message
                if rng.below(3) == 0 {
                    let (tx, rx) = ipc::channel::<Carrier>().unwrap();
                    chans.push(Chan { bytes: false, senders: vec![Tx::T(tx)], receiver: Some(Rx::T(rx)), fifo: VecDeque::new(), queued: 0 });
                } else {
                    let (tx, rx) = ipc::bytes_channel().unwrap();
                    chans.push(Chan { bytes: true, senders: vec![Tx::B(tx)], receiver: Some(Rx::B(rx)), fifo: VecDeque::new(), queued: 0 });
                }
                ops.push("new".into());
                results.push("ok".into());
            },
            2 => {
                let c = rng.below(n as u64) as usize;
                let cl = match chans[c].senders.first() {
                    Some(Tx::B(s)) => Some(Tx::B(s.clone())),
                    Some(Tx::T(s)) => Some(Tx::T(s.clone())),
                    None => None,
                };
                if let Some(cl) = cl {
                    chans[c].senders.push(cl);
                    ops.push(format!("clone {}", c));
                    results.push("ok".into());
                }
            },
            3 | 4 => {
                let c = rng.below(n as u64) as usize;
                if chans[c].senders.pop().is_some() {
                    ops.push(format!("dropsnd {}", c));
                    results.push("ok".into());
                }
            },
            5..=9 => {
                let c = rng.below(n as u64) as usize;
                if chans[c].senders.is_empty() || chans[c].queued >= 12 {
                    continue;
                }
                tag += 1;
                if chans[c].bytes {
                    let p = payload(rng, tag, max);
                    ops.push(format!("send {} {}", c, tag));
                    let r = match &chans[c].senders[0] {
                        Tx::B(s) => s.send(&p),
                        _ => unreachable!(),
                    };
                    match r {
                        Ok(()) => {
                            chans[c].fifo.push_back((tag, p));
                            chans[c].queued += 1;
                            results.push("ok".into());
                        },
                        Err(_) => results.push("senderr".into()),
                    }
                } else {
                    // embed endpoints of byte channels: senders are cloned for the message, receivers are moved
                    let mut m = Carrier { tag, bs: vec![], br: vec![] };
                    let mut hs: Vec<String> = Vec::new();
                    for _ in 0..rng.below(3) {
                        let cand: Vec<usize> = (0..n).filter(|d| chans[*d].bytes).collect();
                        if cand.is_empty() {
                            break;
                        }
                        let d = cand[rng.below(cand.len() as u64) as usize];
                        if rng.below(2) == 0 {
                            if let Some(Tx::B(s)) = chans[d].senders.first() {
                                m.bs.push((d as u32, s.clone()));
                            }
                        } else if !m.br.iter().any(|(x, _)| *x as usize == d) {
                            if let Some(Rx::B(r)) = chans[d].receiver.take() {
                                m.br.push((d as u32, r));
                            }
                        }
                    }
                    hs.extend(m.bs.iter().map(|(d, _)| format!("s{}", d)));
                    hs.extend(m.br.iter().map(|(d, _)| format!("r{}", d)));
                    ops.push(format!("send {} {} {}", c, tag, hs.join(" ")).trim_end().to_string());
                    let r = match &chans[c].senders[0] {
                        Tx::T(s) => s.send(m),
                        _ => unreachable!(),
                    };
                    match r {
                        Ok(()) => {
                            chans[c].queued += 1;
                            results.push("ok".into());
                        },
                        Err(_) => results.push("senderr".into()),
                    }
                }
            },
            10..=13 => {
                let c = rng.below(n as u64) as usize;
                if chans[c].receiver.is_none() {
                    continue;
                }
                ops.push(format!("recv {}", c));
                let blocking = rng.below(2) == 0 && chans[c].queued > 0;
                if chans[c].bytes {
                    let r = match chans[c].receiver.as_ref().unwrap() {
                        Rx::B(rx) => {
                            if blocking {
                                rx.recv().map_err(TryRecvError::IpcError)
                            } else {
                                rx.try_recv()
                            }
                        },
                        _ => unreachable!(),
                    };
                    match r {
                        Ok(d) => {
                            chans[c].queued = chans[c].queued.saturating_sub(1);
                            match chans[c].fifo.pop_front() {
                                Some((t, p)) => {
                                    if p != d {
                                        problems.push(format!("byte channel {}: payload of message {} ({} bytes) arrived as {} bytes / altered", c, t, p.len(), d.len()));
                                    }
                                    results.push(format!("msg:{}:-", t));
                                },
                                None => {
                                    problems.push(format!("byte channel {} delivered {} bytes nobody sent", c, d.len()));
                                    results.push("msg:?:-".into());
                                },
                            }
                        },
                        Err(TryRecvError::Empty) => results.push("empty".into()),
                        Err(TryRecvError::IpcError(IpcError::Disconnected)) => results.push("disc".into()),
                        Err(e) => {
                            results.push("error".into());
                            problems.push(format!("byte receive failed: {:?}", e));
                        },
                    }
                } else {
                    let r = match chans[c].receiver.as_ref().unwrap() {
                        Rx::T(rx) => {
                            if blocking {
                                rx.recv().map_err(TryRecvError::IpcError)
                            } else {
                                rx.try_recv()
                            }
                        },
                        _ => unreachable!(),
                    };
                    match r {
                        Ok(m) => {
                            chans[c].queued = chans[c].queued.saturating_sub(1);
                            let mut hs = Vec::new();
                            for (d, s) in m.bs {
                                hs.push(format!("s{}", d));
                                chans[d as usize].senders.push(Tx::B(s));
                            }
                            for (d, r) in m.br {
                                hs.push(format!("r{}", d));
                                chans[d as usize].receiver = Some(Rx::B(r));
                            }
                            results.push(format!("msg:{}:{}", m.tag, if hs.is_empty() { "-".into() } else { hs.join(",") }));
                        },
                        Err(TryRecvError::Empty) => results.push("empty".into()),
                        Err(TryRecvError::IpcError(IpcError::Disconnected)) => results.push("disc".into()),
                        Err(e) => {
                            results.push("error".into());
                            problems.push(format!("receive failed: {:?}", e));
                        },
                    }
                }
            },
            14 => {
                let c = rng.below(n as u64) as usize;
                if chans[c].receiver.take().is_some() {
                    chans[c].queued = 0;
                    chans[c].fifo.clear();
                    ops.push(format!("droprcv {}", c));
                    results.push("ok".into());
                }
            },
            _ => {},
        }
    }
    // final sweep of the byte channels still held: whatever is queued must come out intact and in order, then empty / disc
    for c in 0..chans.len() {
        if !chans[c].bytes {
            continue;
        }
        let Chan { receiver, fifo, .. } = &mut chans[c];
        if let Some(Rx::B(rx)) = receiver {
            for _ in 0..20 {
                ops.push(format!("recv {}", c));
                match rx.try_recv() {
                    Ok(d) => match fifo.pop_front() {
                        Some((t, p)) => {
                            if p != d {
                                problems.push(format!("byte channel {}: payload of message {} altered", c, t));
                            }
                            results.push(format!("msg:{}:-", t));
                        },
                        None => {
                            problems.push(format!("byte channel {} delivered {} bytes nobody sent", c, d.len()));
                            results.push("msg:?:-".into());
                        },
                    },
                    Err(TryRecvError::Empty) => {
                        results.push("empty".into());
                        break;
                    },
                    Err(TryRecvError::IpcError(IpcError::Disconnected)) => {
                        results.push("disc".into());
                        break;
                    },
                    Err(e) => {
                        results.push("error".into());
                        problems.push(format!("byte receive failed: {:?}", e));
                        break;
                    },
                }
            }
        }
    }
    (ops, results, problems)
}

pub fn run(args: &[String]) {
    let thorough = arg(args, "--tier").as_deref() == Some("thorough");
    let seed = arg_u64(args, "--seed", 1);
    let n = arg_u64(args, "--n", if thorough { 2000 } else { 150 });
    #[cfg(not(feature = "force-inprocess"))]
    let max = {
        crate::interpose::SPOOF_SNDBUF.store(4608, std::sync::atomic::Ordering::SeqCst);
        let _ = crate::frag::effective_sys();
        ipc_channel::platform::OsIpcSender::get_max_fragment_size()
    };
    #[cfg(feature = "force-inprocess")]
    let max = 4568usize;
    let build = if cfg!(feature = "force-inprocess") { "inprocess" } else if cfg!(feature = "memfd") { "memfd" } else { "os" };
    let mut rng = Rng::new(seed ^ 0xb17e5);
    for i in 0..n {
        let mut case = Case::new(format!("bytes-{}-{}", build, i));
        let (ops, results, problems) = program(&mut rng, 36, max);
        for p in &problems {
            case.fail(p.clone());
        }
        case.pair(format!("ideal {}", ops.join(" | ")), results.join(" "));
        #[cfg(not(feature = "force-inprocess"))]
        case.pair(format!("unix {}", ops.join(" | ")), format!("valid {}", results.join(" ")));
        case.nontrivial = results.iter().any(|r| r.starts_with("msg:"));
        case.key = ops.join("|");
        case.tags.push(format!("build={}", build));
        for r in &results {
            let k = r.split(':').next().unwrap().to_string();
            if k != "ok" {
                case.tags.push(format!("result={}", k));
            }
        }
        if results.iter().any(|r| r.starts_with("msg:") && !r.ends_with(":-")) {
            case.tags.push("embedded_byte_endpoints".into());
        }
        case.tags.sort();
        case.tags.dedup();
        case.emit();
    }
}
