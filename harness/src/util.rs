//! PRNG (SplitMix64), JSON output helpers, watchdog.
use std::fmt::Write;

#[derive(Clone)]
pub struct Rng(pub u64);
impl Rng {
    pub fn new(seed: u64) -> Rng {
        Rng(seed.wrapping_mul(0x9E3779B97F4A7C15) ^ 0xD1B54A32D192ED03)
    }
    pub fn next(&mut self) -> u64 {
        self.0 = self.0.wrapping_add(0x9E3779B97F4A7C15);
        let mut z = self.0;
        z = (z ^ (z >> 30)).wrapping_mul(0xBF58476D1CE4E5B9);
        z = (z ^ (z >> 27)).wrapping_mul(0x94D049BB133111EB);
        z ^ (z >> 31)
    }
    pub fn below(&mut self, n: u64) -> u64 {
        if n == 0 {
            0
        } else {
            self.next() % n
        }
    }
    pub fn range(&mut self, lo: u64, hi: u64) -> u64 {
        lo + self.below(hi - lo + 1)
    }
    pub fn bytes(&mut self, n: usize) -> Vec<u8> {
        let mut v = Vec::with_capacity(n);
        while v.len() + 8 <= n {
            v.extend_from_slice(&self.next().to_le_bytes());
        }
        while v.len() < n {
            v.push(self.next() as u8);
        }
        v
    }
    pub fn chance(&mut self, num: u64, den: u64) -> bool {
        self.below(den) < num
    }
}

pub fn jstr(s: &str) -> String {
    let mut o = String::with_capacity(s.len() + 2);
    o.push('"');
    for c in s.chars() {
        match c {
            '"' => o.push_str("\\\""),
            '\\' => o.push_str("\\\\"),
            '\n' => o.push_str("\\n"),
            '\t' => o.push_str("\\t"),
            c if (c as u32) < 0x20 => {
                let _ = write!(o, "\\u{:04x}", c as u32);
            },
            c => o.push(c),
        }
    }
    o.push('"');
    o
}
pub fn jarr(v: &[String]) -> String {
    let mut o = String::from("[");
    for (i, s) in v.iter().enumerate() {
        if i > 0 {
            o.push(',');
        }
        o.push_str(&jstr(s));
    }
    o.push(']');
    o
}

/// One executed case: requests for the model driver, the implementation's canonical answers to the same requests,
/// the verdict of the implementation-side oracle, and bookkeeping for the evidence file.
pub struct Case {
    pub id: String,
    pub req: Vec<String>,
    pub imp: Vec<String>,
    pub oracle: Option<String>,
    pub nontrivial: bool,
    pub key: String,
    pub tags: Vec<String>,
}
impl Case {
    pub fn new(id: String) -> Case {
        Case { id, req: vec![], imp: vec![], oracle: None, nontrivial: false, key: String::new(), tags: vec![] }
    }
    pub fn pair(&mut self, req: String, imp: String) {
        self.req.push(req);
        self.imp.push(imp);
    }
    pub fn fail(&mut self, msg: String) {
        if std::env::var("VH_ALL_FAILS").is_ok() {
            eprintln!("[{}] {}", self.id, msg);
        }
        if self.oracle.is_none() {
            self.oracle = Some(msg);
        }
    }
    pub fn emit(&self) {
        let orc = match &self.oracle {
            None => "null".to_string(),
            Some(s) => jstr(s),
        };
        println!(
            "{{\"id\":{},\"req\":{},\"impl\":{},\"oracle\":{},\"nontrivial\":{},\"key\":{},\"tags\":{}}}",
            jstr(&self.id),
            jarr(&self.req),
            jarr(&self.imp),
            orc,
            self.nontrivial,
            jstr(&self.key),
            jarr(&self.tags)
        );
    }
}

/// run `f` on a helper thread; None if it does not finish within `secs` (the thread is leaked)
pub fn with_watchdog<R: Send + 'static>(secs: u64, f: impl FnOnce() -> R + Send + 'static) -> Option<R> {
    let (tx, rx) = std::sync::mpsc::channel();
    std::thread::spawn(move || {
        let _ = tx.send(f());
    });
    rx.recv_timeout(std::time::Duration::from_secs(secs)).ok()
}

pub fn arg(args: &[String], name: &str) -> Option<String> {
    let mut i = 0;
    while i < args.len() {
        if args[i] == name && i + 1 < args.len() {
            return Some(args[i + 1].clone());
        }
        i += 1;
    }
    None
}
pub fn arg_u64(args: &[String], name: &str, default: u64) -> u64 {
    arg(args, name).and_then(|s| s.parse().ok()).unwrap_or(default)
}
