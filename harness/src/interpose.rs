//! In-binary libc interposer: the harness binary defines the libc entry points itself and forwards to the
//! real ones through dlsym(RTLD_NEXT).  Every call made by the crate under test, by mio, tempfile and std inside
//! this process goes through these definitions (no LD_PRELOAD, no change to /repo).
//!
//! Per thread a `Ctx` (installed by the scenario) receives trace events and supplies fault plans; process-wide
//! switches spoof SO_SNDBUF, crash the process before system call number k, and gate threads (turn scheduler).
#![allow(clippy::missing_safety_doc)]
use std::cell::Cell;
use std::collections::{BTreeMap, BTreeSet};
use std::sync::atomic::{AtomicBool, AtomicI64, AtomicU64, AtomicUsize, Ordering};
use std::sync::{Condvar, Mutex};

macro_rules! real {
    ($name:literal, $ty:ty) => {{
        static P: std::sync::atomic::AtomicUsize = std::sync::atomic::AtomicUsize::new(0);
        let mut p = P.load(std::sync::atomic::Ordering::Relaxed);
        if p == 0 {
            p = libc::dlsym(libc::RTLD_NEXT, concat!($name, "\0").as_ptr() as *const _) as usize;
            P.store(p, std::sync::atomic::Ordering::Relaxed);
        }
        std::mem::transmute::<usize, $ty>(p)
    }};
}

#[derive(Clone, Debug, PartialEq)]
pub enum Ev {
    Socketpair { a: i32, b: i32, r: i32, cloexec: bool },
    Socket { fd: i32, cloexec: bool },
    Connect { fd: i32, r: i32, errno: i32 },
    Bind { fd: i32, r: i32, path: String },
    Listen { fd: i32, backlog: i32, r: i32 },
    Accept { fd: i32, r: i32, cloexec: bool },
    /// bytes = total iovec bytes; header = first 8 bytes of iovec 0 if it is 8 bytes long
    Sendmsg { fd: i32, bytes: usize, header: Option<u64>, fds: Vec<i32>, ctl: usize, r: isize, errno: i32 },
    Send { fd: i32, bytes: usize, r: isize, errno: i32 },
    Recvmsg { fd: i32, want: usize, ctl_cap: usize, r: isize, errno: i32, fds: Vec<i32>, flags: i32, msg_flags: i32, header: Option<u64> },
    Recv { fd: i32, want: usize, r: isize, errno: i32 },
    Close { fd: i32, r: i32 },
    Dup { fd: i32, r: i32, cloexec: bool },
    FcntlSetfl { fd: i32, arg: i64, r: i32 },
    Poll { fd: i32, timeout: i32, r: i32 },
    EpollCreate { r: i32 },
    EpollCtl { ep: i32, op: i32, fd: i32, r: i32 },
    EpollWait { ep: i32, max: i32, timeout: i32, r: i32, errno: i32 },
    Getsockopt { fd: i32, name: i32, val: i64 },
    Setsockopt { fd: i32, name: i32, r: i32 },
    ShmOpen { r: i32 },
    ShmUnlink { r: i32 },
    Ftruncate { fd: i32, len: i64, r: i32 },
    Mmap { fd: i32, len: usize, addr: usize },
    Munmap { addr: usize, len: usize, r: i32 },
    Fstat { fd: i32 },
}

/// per-thread context installed by a scenario
pub struct Ctx {
    pub tid: usize,
    pub trace: Vec<(u64, Ev)>,
    /// results for successive transmission attempts (sendmsg/send): 0 = real call, 1 = ENOBUFS, 2 = EPIPE-like fatal
    pub faults: Vec<u8>,
    pub next_fault: usize,
    /// inject EINTR into the next n epoll_wait calls
    pub eintr: usize,
    pub record: bool,
    pub gated: bool,
}

impl Ctx {
    pub fn new(tid: usize) -> Ctx {
        Ctx { tid, trace: Vec::new(), faults: Vec::new(), next_fault: 0, eintr: 0, record: true, gated: false }
    }
}

thread_local! {
    static CTX: Cell<*mut Ctx> = const { Cell::new(std::ptr::null_mut()) };
    static IN_HOOK: Cell<bool> = const { Cell::new(false) };
}

pub static SEQ: AtomicU64 = AtomicU64::new(0);
pub static SPOOF_SNDBUF: AtomicUsize = AtomicUsize::new(0);
/// crash (SIGKILL self) immediately before the k-th *counted* system call (sendmsg/send/socketpair/close); -1 = off
pub static CRASH_AT: AtomicI64 = AtomicI64::new(-1);
pub static CALLNO: AtomicI64 = AtomicI64::new(0);
/// pause immediately before the k-th counted system call: write "p\n" to stdout, then wait for one byte on stdin; -1 = off
pub static PAUSE_AT: AtomicI64 = AtomicI64::new(-1);
/// bit k set: the k-th recv() call (counted from when the mask was armed) is answered EINTR
pub static EINTR_RECV_MASK: AtomicU64 = AtomicU64::new(0);
pub static EINTR_RECV_CALLNO: AtomicU64 = AtomicU64::new(0);
/// the next n accept4() / blocking recvmsg() calls are answered EINTR
pub static EINTR_ACCEPT_NEXT: AtomicU64 = AtomicU64::new(0);
pub static EINTR_RECVMSG_NEXT: AtomicU64 = AtomicU64::new(0);
pub static COUNT_CALLS: AtomicBool = AtomicBool::new(false);
/// make connect() fail with ECONNREFUSED / bind() fail: counters of forced failures
pub static FAIL_MMAP: AtomicBool = AtomicBool::new(false);
/// one-shot forced failures of the next AF_UNIX socket() / bind() / listen() call (C08: error paths of OneShotServer::new)
pub static FAIL_SOCKET: AtomicBool = AtomicBool::new(false);
pub static FAIL_BIND: AtomicBool = AtomicBool::new(false);
pub static FAIL_LISTEN: AtomicBool = AtomicBool::new(false);
pub static FAIL_EPOLL_ADD: AtomicBool = AtomicBool::new(false);

pub struct Installed(*mut Ctx);
impl Drop for Installed {
    fn drop(&mut self) {
        CTX.with(|c| c.set(std::ptr::null_mut()));
        unsafe { drop(Box::from_raw(self.0)) }
    }
}
/// install a context for the current thread; returns a guard. Use `take()` to get the trace out.
pub fn install(ctx: Ctx) -> Installed {
    let p = Box::into_raw(Box::new(ctx));
    CTX.with(|c| c.set(p));
    Installed(p)
}
pub fn with_ctx<R>(f: impl FnOnce(&mut Ctx) -> R) -> Option<R> {
    CTX.with(|c| {
        let p = c.get();
        if p.is_null() {
            None
        } else {
            Some(f(unsafe { &mut *p }))
        }
    })
}
pub fn take_trace() -> Vec<(u64, Ev)> {
    with_ctx(|c| std::mem::take(&mut c.trace)).unwrap_or_default()
}
pub fn set_faults(f: Vec<u8>) {
    with_ctx(|c| {
        c.faults = f;
        c.next_fault = 0;
    });
}

fn rec(ev: impl FnOnce() -> Ev) {
    IN_HOOK.with(|h| {
        if h.get() {
            return;
        }
        h.set(true);
        CTX.with(|c| {
            let p = c.get();
            if !p.is_null() {
                let ctx = unsafe { &mut *p };
                if ctx.record {
                    let s = SEQ.fetch_add(1, Ordering::SeqCst);
                    ctx.trace.push((s, ev()));
                }
            }
        });
        h.set(false);
    });
}

// ---------------------------------------------------------------------------------------------
// ledger: descriptors created through the hooked calls and not yet closed (process-wide)
pub static LEDGER_ON: AtomicBool = AtomicBool::new(false);
pub struct Ledger {
    pub open: BTreeMap<i32, &'static str>,
    /// close() calls on descriptors the ledger does not know, or that failed
    pub bad_closes: Vec<(i32, i32)>,
    pub not_cloexec: BTreeSet<(i32, &'static str)>,
    pub maps: BTreeMap<usize, usize>,
    pub bad_unmaps: Vec<(usize, usize)>,
}
pub static LEDGER: Mutex<Ledger> = Mutex::new(Ledger {
    open: BTreeMap::new(),
    bad_closes: Vec::new(),
    not_cloexec: BTreeSet::new(),
    maps: BTreeMap::new(),
    bad_unmaps: Vec::new(),
});
fn is_cloexec(fd: i32) -> bool {
    unsafe {
        let f = real!("fcntl", unsafe extern "C" fn(i32, i32, libc::c_long) -> i32)(fd, libc::F_GETFD, 0);
        f >= 0 && (f & libc::FD_CLOEXEC) != 0
    }
}
fn ledger_open(fd: i32, how: &'static str) {
    if fd < 0 || !LEDGER_ON.load(Ordering::SeqCst) {
        return;
    }
    IN_HOOK.with(|h| {
        if h.get() {
            return;
        }
        h.set(true);
        let ce = is_cloexec(fd);
        let mut l = LEDGER.lock().unwrap();
        l.open.insert(fd, how);
        if !ce {
            l.not_cloexec.insert((fd, how));
        }
        drop(l);
        h.set(false);
    });
}
/// The ledger entry is removed BEFORE the real close: once the kernel has released the number another thread may get it
/// from socket()/accept() and register it, and a removal that came afterwards would delete that new entry (seen as a
/// spurious "close of a descriptor the library does not own" under load).
fn ledger_pre_close(fd: i32) -> Option<bool> {
    if !LEDGER_ON.load(Ordering::SeqCst) {
        return None;
    }
    IN_HOOK.with(|h| {
        if h.get() {
            return None;
        }
        h.set(true);
        let mut known = LEDGER.lock().unwrap().open.remove(&fd).is_some();
        if !known {
            // memfd_create is issued through syscall(2), which is not interposed: a descriptor that names a memfd is the
            // library's (nothing else in the harness creates one)
            if let Ok(l) = std::fs::read_link(format!("/proc/self/fd/{}", fd)) {
                known = l.to_string_lossy().starts_with("/memfd:");
            }
        }
        h.set(false);
        Some(known)
    })
}
fn ledger_post_close(fd: i32, r: i32, known: Option<bool>) {
    let known = match known {
        Some(k) => k,
        None => return,
    };
    IN_HOOK.with(|h| {
        if h.get() {
            return;
        }
        h.set(true);
        if r != 0 || (!known && LIB_SCOPE.with(|s| s.get())) {
            LEDGER.lock().unwrap().bad_closes.push((fd, r));
        }
        h.set(false);
    });
}
thread_local! { pub static LIB_SCOPE: Cell<bool> = const { Cell::new(false) }; }
/// run `f` as "library code": closes of descriptors unknown to the ledger are flagged
pub fn lib_scope<R>(f: impl FnOnce() -> R) -> R {
    LIB_SCOPE.with(|s| s.set(true));
    let r = f();
    LIB_SCOPE.with(|s| s.set(false));
    r
}

// ---------------------------------------------------------------------------------------------
// gate: turn-based scheduler at the system-call boundary
pub static GATE_ON: AtomicBool = AtomicBool::new(false);
pub struct Gate {
    pub turn: Option<usize>,
    pub waiting: Vec<(usize, String)>,
}
pub static GATE: Mutex<Gate> = Mutex::new(Gate { turn: None, waiting: Vec::new() });
pub static GATE_CV: Condvar = Condvar::new();

fn gate(desc: impl FnOnce() -> String) {
    if !GATE_ON.load(Ordering::SeqCst) {
        return;
    }
    let tid = match with_ctx(|c| if c.gated { Some(c.tid) } else { None }) {
        Some(Some(t)) => t,
        _ => return,
    };
    let mut g = GATE.lock().unwrap();
    g.waiting.push((tid, desc()));
    GATE_CV.notify_all();
    while g.turn != Some(tid) {
        g = GATE_CV.wait(g).unwrap();
    }
    g.turn = None;
    GATE_CV.notify_all();
}
/// controller side: wait until thread `tid` is parked at a gate (or `done` says it finished); returns its description
pub fn gate_wait_parked(tid: usize, done: &AtomicBool) -> Option<String> {
    let mut g = GATE.lock().unwrap();
    loop {
        if let Some((_, d)) = g.waiting.iter().find(|(t, _)| *t == tid) {
            return Some(d.clone());
        }
        if done.load(Ordering::SeqCst) {
            return None;
        }
        let (gg, _) = GATE_CV.wait_timeout(g, std::time::Duration::from_millis(2)).unwrap();
        g = gg;
    }
}
/// controller side: let thread `tid` perform the call it is parked at, and wait until it has taken the turn
pub fn gate_grant(tid: usize) {
    let mut g = GATE.lock().unwrap();
    if let Some(i) = g.waiting.iter().position(|(t, _)| *t == tid) {
        g.waiting.remove(i);
    }
    g.turn = Some(tid);
    GATE_CV.notify_all();
    while g.turn.is_some() {
        g = GATE_CV.wait(g).unwrap();
    }
}

// ---------------------------------------------------------------------------------------------


fn errno() -> i32 {
    unsafe { *libc::__errno_location() }
}
fn set_errno(e: i32) {
    unsafe { *libc::__errno_location() = e }
}

fn counted_call() {
    if COUNT_CALLS.load(Ordering::SeqCst) {
        let n = CALLNO.fetch_add(1, Ordering::SeqCst);
        if CRASH_AT.load(Ordering::SeqCst) == n {
            unsafe {
                libc::kill(libc::getpid(), libc::SIGKILL);
                loop {
                    libc::pause();
                }
            }
        }
        if PAUSE_AT.load(Ordering::SeqCst) == n {
            unsafe {
                let e = errno();
                let msg = b"p\n";
                libc::write(1, msg.as_ptr() as *const libc::c_void, 2);
                let mut b = [0u8; 1];
                libc::read(0, b.as_mut_ptr() as *mut libc::c_void, 1);
                set_errno(e);
            }
        }
    }
}

/// one-shot fault for the next transmission attempt of thread `tid` (set by the gate controller)
pub static FAULT_NEXT: [std::sync::atomic::AtomicU8; 128] = [const { std::sync::atomic::AtomicU8::new(0) }; 128];

fn next_fault() -> u8 {
    with_ctx(|c| {
        if c.tid < 128 {
            let f = FAULT_NEXT[c.tid].swap(0, Ordering::SeqCst);
            if f != 0 {
                return f;
            }
        }
        if c.next_fault < c.faults.len() {
            c.next_fault += 1;
            c.faults[c.next_fault - 1]
        } else {
            0
        }
    })
    .unwrap_or(0)
}

unsafe fn scm_fds(m: *const libc::msghdr) -> Vec<i32> {
    let mut out = Vec::new();
    if (*m).msg_control.is_null() || ((*m).msg_controllen as usize) < std::mem::size_of::<libc::cmsghdr>() {
        return out;
    }
    let mut c = libc::CMSG_FIRSTHDR(m);
    while !c.is_null() {
        if (*c).cmsg_level == libc::SOL_SOCKET && (*c).cmsg_type == libc::SCM_RIGHTS {
            let n = ((*c).cmsg_len as usize - libc::CMSG_LEN(0) as usize) / 4;
            let d = libc::CMSG_DATA(c) as *const i32;
            for i in 0..n {
                out.push(std::ptr::read_unaligned(d.add(i)));
            }
        }
        c = libc::CMSG_NXTHDR(m, c);
    }
    out
}

#[no_mangle]
pub unsafe extern "C" fn socketpair(d: i32, t: i32, p: i32, sv: *mut i32) -> i32 {
    counted_call();
    let r = real!("socketpair", unsafe extern "C" fn(i32, i32, i32, *mut i32) -> i32)(d, t, p, sv);
    if r == 0 {
        ledger_open(*sv, "socketpair");
        ledger_open(*sv.add(1), "socketpair");
    }
    let (a, b) = (*sv, *sv.add(1));
    rec(|| Ev::Socketpair { a, b, r, cloexec: t & libc::SOCK_CLOEXEC != 0 });
    r
}
#[no_mangle]
pub unsafe extern "C" fn socket(d: i32, t: i32, p: i32) -> i32 {
    if d == libc::AF_UNIX && FAIL_SOCKET.swap(false, Ordering::SeqCst) {
        set_errno(libc::ENFILE);
        return -1;
    }
    let r = real!("socket", unsafe extern "C" fn(i32, i32, i32) -> i32)(d, t, p);
    if d == libc::AF_UNIX {
        ledger_open(r, "socket");
        rec(|| Ev::Socket { fd: r, cloexec: t & libc::SOCK_CLOEXEC != 0 });
    }
    r
}
#[no_mangle]
pub unsafe extern "C" fn connect(fd: i32, a: *const libc::sockaddr, l: u32) -> i32 {
    let r = real!("connect", unsafe extern "C" fn(i32, *const libc::sockaddr, u32) -> i32)(fd, a, l);
    let e = errno();
    rec(|| Ev::Connect { fd, r, errno: e });
    set_errno(e);
    r
}
#[no_mangle]
pub unsafe extern "C" fn bind(fd: i32, a: *const libc::sockaddr, l: u32) -> i32 {
    if FAIL_BIND.swap(false, Ordering::SeqCst) {
        set_errno(libc::EADDRINUSE);
        return -1;
    }
    let r = real!("bind", unsafe extern "C" fn(i32, *const libc::sockaddr, u32) -> i32)(fd, a, l);
    let e = errno();
    let path = if !a.is_null() && (*a).sa_family as i32 == libc::AF_UNIX {
        let un = a as *const libc::sockaddr_un;
        let bytes: Vec<u8> = (*un).sun_path.iter().take_while(|c| **c != 0).map(|c| *c as u8).collect();
        String::from_utf8_lossy(&bytes).into_owned()
    } else {
        String::new()
    };
    rec(|| Ev::Bind { fd, r, path });
    set_errno(e);
    r
}
#[no_mangle]
pub unsafe extern "C" fn listen(fd: i32, n: i32) -> i32 {
    if FAIL_LISTEN.swap(false, Ordering::SeqCst) {
        set_errno(libc::EADDRINUSE);
        return -1;
    }
    let r = real!("listen", unsafe extern "C" fn(i32, i32) -> i32)(fd, n);
    rec(|| Ev::Listen { fd, backlog: n, r });
    r
}
#[no_mangle]
pub unsafe extern "C" fn accept(fd: i32, a: *mut libc::sockaddr, l: *mut u32) -> i32 {
    let r = real!("accept", unsafe extern "C" fn(i32, *mut libc::sockaddr, *mut u32) -> i32)(fd, a, l);
    let e = errno();
    ledger_open(r, "accept");
    rec(|| Ev::Accept { fd, r, cloexec: r >= 0 && is_cloexec(r) });
    set_errno(e);
    r
}
#[no_mangle]
pub unsafe extern "C" fn accept4(fd: i32, a: *mut libc::sockaddr, l: *mut u32, fl: i32) -> i32 {
    // a signal handled while waiting in accept(): EINTR, nothing accepted
    if EINTR_ACCEPT_NEXT.load(Ordering::SeqCst) > 0 {
        EINTR_ACCEPT_NEXT.fetch_sub(1, Ordering::SeqCst);
        rec(|| Ev::Accept { fd, r: -1, cloexec: false });
        set_errno(libc::EINTR);
        return -1;
    }
    let r = real!("accept4", unsafe extern "C" fn(i32, *mut libc::sockaddr, *mut u32, i32) -> i32)(fd, a, l, fl);
    let e = errno();
    ledger_open(r, "accept4");
    rec(|| Ev::Accept { fd, r, cloexec: r >= 0 && is_cloexec(r) });
    set_errno(e);
    r
}
#[no_mangle]
pub unsafe extern "C" fn sendmsg(fd: i32, m: *const libc::msghdr, fl: i32) -> isize {
    gate(|| format!("sendmsg {}", fd));
    counted_call();
    let mut t = 0usize;
    for i in 0..(*m).msg_iovlen as usize {
        t += (*(*m).msg_iov.add(i)).iov_len;
    }
    let header = if (*m).msg_iovlen as usize >= 1 && (*(*m).msg_iov).iov_len == 8 {
        Some(std::ptr::read_unaligned((*(*m).msg_iov).iov_base as *const u64))
    } else {
        None
    };
    let fds = scm_fds(m);
    let ctl = (*m).msg_controllen as usize;
    let (r, e) = match next_fault() {
        1 => (-1, libc::ENOBUFS),
        2 => (-1, libc::EPIPE),
        _ => {
            let r = real!("sendmsg", unsafe extern "C" fn(i32, *const libc::msghdr, i32) -> isize)(fd, m, fl);
            (r, errno())
        },
    };
    rec(|| Ev::Sendmsg { fd, bytes: t, header, fds, ctl, r, errno: e });
    set_errno(e);
    r
}
#[no_mangle]
pub unsafe extern "C" fn send(fd: i32, b: *const libc::c_void, n: usize, fl: i32) -> isize {
    gate(|| format!("send {}", fd));
    counted_call();
    let (r, e) = match next_fault() {
        1 => (-1, libc::ENOBUFS),
        2 => (-1, libc::EPIPE),
        _ => {
            let r = real!("send", unsafe extern "C" fn(i32, *const libc::c_void, usize, i32) -> isize)(fd, b, n, fl);
            (r, errno())
        },
    };
    rec(|| Ev::Send { fd, bytes: n, r, errno: e });
    set_errno(e);
    r
}
#[no_mangle]
pub unsafe extern "C" fn recvmsg(fd: i32, m: *mut libc::msghdr, fl: i32) -> isize {
    gate(|| format!("recvmsg {}", fd));
    // a signal handled while waiting in a blocking recvmsg(): EINTR, nothing received
    if EINTR_RECVMSG_NEXT.load(Ordering::SeqCst) > 0 && (fl & libc::MSG_DONTWAIT) == 0 {
        EINTR_RECVMSG_NEXT.fetch_sub(1, Ordering::SeqCst);
        set_errno(libc::EINTR);
        return -1;
    }
    let mut want = 0usize;
    for i in 0..(*m).msg_iovlen as usize {
        want += (*(*m).msg_iov.add(i)).iov_len;
    }
    let ctl_cap = (*m).msg_controllen as usize;
    let r = real!("recvmsg", unsafe extern "C" fn(i32, *mut libc::msghdr, i32) -> isize)(fd, m, fl);
    let e = errno();
    let fds = if r >= 0 { scm_fds(m) } else { Vec::new() };
    for f in &fds {
        ledger_open(*f, "scm_rights");
    }
    let header = if r >= 8 && (*m).msg_iovlen as usize >= 1 && (*(*m).msg_iov).iov_len == 8 {
        Some(std::ptr::read_unaligned((*(*m).msg_iov).iov_base as *const u64))
    } else {
        None
    };
    let mf = (*m).msg_flags;
    rec(|| Ev::Recvmsg { fd, want, ctl_cap, r, errno: e, fds, flags: fl, msg_flags: mf, header });
    set_errno(e);
    r
}
#[no_mangle]
pub unsafe extern "C" fn recv(fd: i32, b: *mut libc::c_void, n: usize, fl: i32) -> isize {
    gate(|| format!("recv {}", fd));
    // a signal handled by this thread while it waits in recv(): the kernel answers EINTR and has transferred nothing
    let mask = EINTR_RECV_MASK.load(Ordering::SeqCst);
    if mask != 0 {
        let k = EINTR_RECV_CALLNO.fetch_add(1, Ordering::SeqCst);
        if k < 64 && (mask >> k) & 1 == 1 {
            rec(|| Ev::Recv { fd, want: n, r: -1, errno: libc::EINTR });
            set_errno(libc::EINTR);
            return -1;
        }
    }
    let r = real!("recv", unsafe extern "C" fn(i32, *mut libc::c_void, usize, i32) -> isize)(fd, b, n, fl);
    let e = errno();
    rec(|| Ev::Recv { fd, want: n, r, errno: e });
    set_errno(e);
    r
}
#[no_mangle]
pub unsafe extern "C" fn close(fd: i32) -> i32 {
    counted_call();
    let known = ledger_pre_close(fd);
    let r = real!("close", unsafe extern "C" fn(i32) -> i32)(fd);
    let e = errno();
    ledger_post_close(fd, r, known);
    rec(|| Ev::Close { fd, r });
    set_errno(e);
    r
}
#[no_mangle]
pub unsafe extern "C" fn dup(fd: i32) -> i32 {
    let r = real!("dup", unsafe extern "C" fn(i32) -> i32)(fd);
    let e = errno();
    ledger_open(r, "dup");
    rec(|| Ev::Dup { fd, r, cloexec: r >= 0 && is_cloexec(r) });
    set_errno(e);
    r
}
#[no_mangle]
pub unsafe extern "C" fn fcntl(fd: i32, cmd: i32, arg: libc::c_long) -> i32 {
    let r = real!("fcntl", unsafe extern "C" fn(i32, i32, libc::c_long) -> i32)(fd, cmd, arg);
    let e = errno();
    if cmd == libc::F_SETFL {
        rec(|| Ev::FcntlSetfl { fd, arg: arg as i64, r });
    } else if cmd == libc::F_DUPFD || cmd == libc::F_DUPFD_CLOEXEC {
        ledger_open(r, "fcntl_dupfd");
        rec(|| Ev::Dup { fd, r, cloexec: r >= 0 && is_cloexec(r) });
    } else if cmd == libc::F_SETFD && (arg & libc::FD_CLOEXEC as libc::c_long) != 0 && LEDGER_ON.load(Ordering::SeqCst) {
        // close-on-exec added in a second step: between the creation of the descriptor and this call a process spawned by
        // another thread inherits it (every creation path of the library asks for the flag atomically)
        IN_HOOK.with(|h| {
            if !h.get() {
                h.set(true);
                LEDGER.lock().unwrap().not_cloexec.insert((fd, "created without close-on-exec, flag added later by fcntl(F_SETFD)"));
                h.set(false);
            }
        });
    }
    set_errno(e);
    r
}
#[no_mangle]
pub unsafe extern "C" fn fcntl64(fd: i32, cmd: i32, arg: libc::c_long) -> i32 {
    fcntl(fd, cmd, arg)
}
#[no_mangle]
pub unsafe extern "C" fn poll(fds: *mut libc::pollfd, n: libc::nfds_t, to: i32) -> i32 {
    let fd0 = if n >= 1 { (*fds).fd } else { -1 };
    gate(|| format!("poll {}", fd0));
    let r = real!("poll", unsafe extern "C" fn(*mut libc::pollfd, libc::nfds_t, i32) -> i32)(fds, n, to);
    let e = errno();
    rec(|| Ev::Poll { fd: fd0, timeout: to, r });
    set_errno(e);
    r
}
#[no_mangle]
pub unsafe extern "C" fn epoll_create1(fl: i32) -> i32 {
    let r = real!("epoll_create1", unsafe extern "C" fn(i32) -> i32)(fl);
    ledger_open(r, "epoll_create1");
    rec(|| Ev::EpollCreate { r });
    r
}
#[no_mangle]
pub unsafe extern "C" fn epoll_ctl(ep: i32, op: i32, fd: i32, ev: *mut libc::epoll_event) -> i32 {
    if op == libc::EPOLL_CTL_ADD && FAIL_EPOLL_ADD.load(Ordering::SeqCst) {
        // the kernel refuses the registration (per-user watch limit reached)
        rec(|| Ev::EpollCtl { ep, op, fd, r: -1 });
        set_errno(libc::ENOSPC);
        return -1;
    }
    let r = real!("epoll_ctl", unsafe extern "C" fn(i32, i32, i32, *mut libc::epoll_event) -> i32)(ep, op, fd, ev);
    let e = errno();
    rec(|| Ev::EpollCtl { ep, op, fd, r });
    set_errno(e);
    r
}
#[no_mangle]
pub unsafe extern "C" fn epoll_wait(ep: i32, ev: *mut libc::epoll_event, n: i32, to: i32) -> i32 {
    gate(|| format!("epoll_wait {}", ep));
    let inject = with_ctx(|c| {
        if c.eintr > 0 {
            c.eintr -= 1;
            true
        } else {
            false
        }
    })
    .unwrap_or(false);
    let (r, e) = if inject {
        (-1, libc::EINTR)
    } else {
        let r = real!("epoll_wait", unsafe extern "C" fn(i32, *mut libc::epoll_event, i32, i32) -> i32)(ep, ev, n, to);
        (r, errno())
    };
    rec(|| Ev::EpollWait { ep, max: n, timeout: to, r, errno: e });
    set_errno(e);
    r
}
#[no_mangle]
pub unsafe extern "C" fn getsockopt(fd: i32, level: i32, name: i32, val: *mut libc::c_void, len: *mut u32) -> i32 {
    let r = real!("getsockopt", unsafe extern "C" fn(i32, i32, i32, *mut libc::c_void, *mut u32) -> i32)(fd, level, name, val, len);
    if level == libc::SOL_SOCKET && name == libc::SO_SNDBUF && r == 0 {
        let s = SPOOF_SNDBUF.load(Ordering::SeqCst);
        if s != 0 {
            *(val as *mut i32) = s as i32;
        }
        let v = *(val as *mut i32) as i64;
        rec(|| Ev::Getsockopt { fd, name, val: v });
    }
    r
}
#[no_mangle]
pub unsafe extern "C" fn setsockopt(fd: i32, level: i32, name: i32, val: *const libc::c_void, len: u32) -> i32 {
    let r = real!("setsockopt", unsafe extern "C" fn(i32, i32, i32, *const libc::c_void, u32) -> i32)(fd, level, name, val, len);
    if level == libc::SOL_SOCKET {
        rec(|| Ev::Setsockopt { fd, name, r });
    }
    r
}
#[no_mangle]
pub unsafe extern "C" fn shm_open(n: *const libc::c_char, f: i32, m: libc::mode_t) -> i32 {
    let r = real!("shm_open", unsafe extern "C" fn(*const libc::c_char, i32, libc::mode_t) -> i32)(n, f, m);
    let e = errno();
    ledger_open(r, "shm_open");
    rec(|| Ev::ShmOpen { r });
    set_errno(e);
    r
}
#[no_mangle]
pub unsafe extern "C" fn shm_unlink(n: *const libc::c_char) -> i32 {
    let r = real!("shm_unlink", unsafe extern "C" fn(*const libc::c_char) -> i32)(n);
    rec(|| Ev::ShmUnlink { r });
    r
}
#[no_mangle]
pub unsafe extern "C" fn ftruncate(fd: i32, l: i64) -> i32 {
    let r = real!("ftruncate", unsafe extern "C" fn(i32, i64) -> i32)(fd, l);
    rec(|| Ev::Ftruncate { fd, len: l, r });
    r
}
#[no_mangle]
pub unsafe extern "C" fn ftruncate64(fd: i32, l: i64) -> i32 {
    let r = real!("ftruncate64", unsafe extern "C" fn(i32, i64) -> i32)(fd, l);
    rec(|| Ev::Ftruncate { fd, len: l, r });
    r
}
#[no_mangle]
pub unsafe extern "C" fn mmap(a: *mut libc::c_void, l: usize, p: i32, f: i32, fd: i32, o: i64) -> *mut libc::c_void {
    let r = real!("mmap", unsafe extern "C" fn(*mut libc::c_void, usize, i32, i32, i32, i64) -> *mut libc::c_void)(a, l, p, f, fd, o);
    if fd >= 0 && f & libc::MAP_SHARED != 0 {
        if LEDGER_ON.load(Ordering::SeqCst) && r != libc::MAP_FAILED {
            IN_HOOK.with(|h| {
                if !h.get() {
                    h.set(true);
                    LEDGER.lock().unwrap().maps.insert(r as usize, l);
                    h.set(false);
                }
            });
        }
        rec(|| Ev::Mmap { fd, len: l, addr: r as usize });
    }
    r
}
#[no_mangle]
pub unsafe extern "C" fn mmap64(a: *mut libc::c_void, l: usize, p: i32, f: i32, fd: i32, o: i64) -> *mut libc::c_void {
    mmap(a, l, p, f, fd, o)
}
#[no_mangle]
pub unsafe extern "C" fn munmap(a: *mut libc::c_void, l: usize) -> i32 {
    let mut tracked = false;
    if LEDGER_ON.load(Ordering::SeqCst) {
        IN_HOOK.with(|h| {
            if !h.get() {
                h.set(true);
                let mut led = LEDGER.lock().unwrap();
                match led.maps.get(&(a as usize)).copied() {
                    Some(len) => {
                        tracked = true;
                        if len != l {
                            led.bad_unmaps.push((a as usize, l));
                        }
                        led.maps.remove(&(a as usize));
                    },
                    None => {},
                }
                drop(led);
                h.set(false);
            }
        });
    }
    let r = real!("munmap", unsafe extern "C" fn(*mut libc::c_void, usize) -> i32)(a, l);
    if tracked {
        rec(|| Ev::Munmap { addr: a as usize, len: l, r });
    }
    r
}

#[no_mangle]
pub unsafe extern "C" fn fstat(fd: i32, st: *mut libc::stat) -> i32 {
    let r = real!("fstat", unsafe extern "C" fn(i32, *mut libc::stat) -> i32)(fd, st);
    let e = errno();
    rec(|| Ev::Fstat { fd });
    set_errno(e);
    r
}
#[no_mangle]
pub unsafe extern "C" fn fstat64(fd: i32, st: *mut libc::stat) -> i32 {
    let r = real!("fstat64", unsafe extern "C" fn(i32, *mut libc::stat) -> i32)(fd, st);
    let e = errno();
    rec(|| Ev::Fstat { fd });
    set_errno(e);
    r
}

/// descriptors currently open in this process (from /proc/self/fd), excluding the directory handle itself
pub fn proc_fds() -> BTreeSet<i32> {
    let mut s = BTreeSet::new();
    let was = with_ctx(|c| std::mem::replace(&mut c.record, false));
    let lon = LEDGER_ON.swap(false, Ordering::SeqCst);
    if let Ok(rd) = std::fs::read_dir("/proc/self/fd") {
        let mut names = Vec::new();
        for e in rd.flatten() {
            if let Ok(n) = e.file_name().to_string_lossy().parse::<i32>() {
                names.push(n);
            }
        }
        // the read_dir handle is closed here; keep only descriptors that still exist
        for n in names {
            if unsafe { real!("fcntl", unsafe extern "C" fn(i32, i32, libc::c_long) -> i32)(n, libc::F_GETFD, 0) } >= 0 {
                s.insert(n);
            }
        }
    }
    LEDGER_ON.store(lon, Ordering::SeqCst);
    if let Some(w) = was {
        with_ctx(|c| c.record = w);
    }
    s
}
/// false only for a descriptor that exists and lacks FD_CLOEXEC (a descriptor closed meanwhile by another thread is fine)
pub fn fd_cloexec(fd: i32) -> bool {
    unsafe {
        let f = real!("fcntl", unsafe extern "C" fn(i32, i32, libc::c_long) -> i32)(fd, libc::F_GETFD, 0);
        f < 0 || (f & libc::FD_CLOEXEC) != 0
    }
}
pub fn shared_maps_count() -> usize {
    let s = std::fs::read_to_string("/proc/self/maps").unwrap_or_default();
    s.lines().filter(|l| l.contains("ipc-channel-shared-memory") || l.contains("/memfd:")).count()
}
