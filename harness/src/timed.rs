//! Scenario `timed` (C10): seeded single-threaded scripts mixing recv / try_recv / try_recv_timeout(d) with sends
//! (small and multi-packet), sender clones and sender drops; the system calls issued on the channel's descriptor
//! (fcntl F_SETFL, poll, recvmsg) and the results are compared with `Timed.call`.  Every script ends with an
//! epilogue that involves a second thread: a blocking recv that must block until a message is sent (no poisoning),
//! or a long timed receive that must return early with a message / a multi-packet message / the disconnection.
//! The oracle checks elapsed times (lower bound for `empty`, generous upper bounds), O_NONBLOCK between calls, payloads.
//! Uses only the ipc-level API, so it also runs on the in-process build (without the system-call trace).
use crate::util::*;
use ipc_channel::ipc::{self, IpcError, IpcReceiver, IpcSender, TryRecvError};
use std::time::{Duration, Instant};

type Msg = (u64, Vec<u8>);

fn pad_for(tag: u64, class: u64, max: usize) -> Vec<u8> {
    let n = match class {
        0 => 0,
        1 => 100,
        2 => max + 1,
        _ => 3 * max,
    };
    (0..n).map(|i| (tag as u8).wrapping_mul(37).wrapping_add((i % 253) as u8)).collect()
}

#[cfg(not(feature = "force-inprocess"))]
fn canon_trace(rfd: i32) -> String {
    use crate::interpose::Ev;
    let mut out = Vec::new();
    for (_, e) in crate::interpose::take_trace() {
        match e {
            Ev::FcntlSetfl { fd, arg, .. } if fd == rfd => {
                out.push(if arg == libc::O_NONBLOCK as i64 {
                    "N".to_string()
                } else if arg == 0 {
                    "C".to_string()
                } else {
                    format!("F{}", arg)
                })
            },
            Ev::Poll { fd, timeout, .. } if fd == rfd => out.push(format!("P{}", timeout)),
            Ev::Recvmsg { fd, .. } if fd == rfd => out.push("R".to_string()),
            _ => {},
        }
    }
    out.join(" ")
}

#[cfg(not(feature = "force-inprocess"))]
fn flag_set(rfd: i32) -> bool {
    unsafe { libc::fcntl(rfd, libc::F_GETFL) & libc::O_NONBLOCK != 0 }
}

fn res_text(r: &Result<Msg, TryRecvError>, classes: &std::collections::HashMap<u64, u64>, max: usize, case: &mut Case) -> String {
    match r {
        Ok((t, pad)) => {
            let want = pad_for(*t, *classes.get(t).unwrap_or(&0), max);
            if *pad != want {
                case.fail(format!("message {} arrived with a different payload ({} bytes, expected {})", t, pad.len(), want.len()));
            }
            format!("msg:{}", t)
        },
        Err(TryRecvError::Empty) => "empty".into(),
        Err(TryRecvError::IpcError(IpcError::Disconnected)) => "disc".into(),
        Err(e) => {
            case.fail(format!("receive failed with an unexpected error: {:?}", e));
            "error".into()
        },
    }
}

/// what a receive call must answer in a single-threaded script (the harness's own reference, independent of the Lean model)
fn expect(queued: &[u64], nsenders: usize) -> String {
    if let Some(t) = queued.first() {
        format!("msg:{}", t)
    } else if nsenders == 0 {
        "disc".into()
    } else {
        "empty".into()
    }
}

/// A receiver that polls — `try_recv` or `try_recv_timeout(d)` with `d` from 0 to a few milliseconds — while another thread is
/// in the middle of sending multi-packet messages: a poll may answer `empty` as often as it likes, but no message may be
/// lost, altered or reordered, and once the sender is gone the receiver must reach `disconnected` after the last message.
fn poll_during_big_sends_case(id: String, how: usize, nmsgs: u64, len: usize) -> Case {
    let mut case = Case::new(id);
    let (tx, rx): (IpcSender<Msg>, IpcReceiver<Msg>) = ipc::channel().unwrap();
    let h = std::thread::spawn(move || {
        let mut ok = 0;
        for t in 1..=nmsgs {
            let body: Vec<u8> = (0..len).map(|i| (t as u8).wrapping_mul(17).wrapping_add((i % 253) as u8)).collect();
            if tx.send((t, body)).is_ok() {
                ok += 1;
            }
        }
        ok
    });
    let d = [Duration::ZERO, Duration::ZERO, Duration::from_micros(300), Duration::from_millis(2)][how];
    let t0 = Instant::now();
    let mut got: Vec<u64> = Vec::new();
    let mut empties = 0u64;
    let mut outcome = "timeout";
    while t0.elapsed() < Duration::from_secs(20) {
        let r = if how == 0 { rx.try_recv() } else { rx.try_recv_timeout(d) };
        match r {
            Ok((t, body)) => {
                let want: Vec<u8> = (0..len).map(|i| (t as u8).wrapping_mul(17).wrapping_add((i % 253) as u8)).collect();
                if body != want {
                    case.fail(format!("message {} ({} bytes) arrived altered ({} bytes) while the receiver was polling", t, len, body.len()));
                }
                got.push(t);
            },
            Err(TryRecvError::Empty) => empties += 1,
            Err(TryRecvError::IpcError(IpcError::Disconnected)) => {
                outcome = "disc";
                break;
            },
            Err(e) => {
                case.fail(format!("polling receive failed: {:?}", e));
                outcome = "error";
                break;
            },
        }
    }
    let sent_ok = h.join().unwrap_or(0);
    let want: Vec<u64> = (1..=nmsgs).collect();
    if sent_ok != nmsgs && case.oracle.is_none() {
        case.fail(format!("{} of {} sends failed although the receiver was alive and polling", nmsgs - sent_ok, nmsgs));
    }
    if got != want && case.oracle.is_none() {
        case.fail(format!(
            "a polling receiver ({}) got messages {:?} of {:?} ({} bytes each, {} polls answered empty, ended with {})",
            ["try_recv", "try_recv_timeout(0)", "try_recv_timeout(300us)", "try_recv_timeout(2ms)"][how], got, want, len, empties, outcome
        ));
    }
    if outcome != "disc" && case.oracle.is_none() {
        case.fail(format!("the receiver did not reach 'disconnected' within 20 s after the sender finished ({})", outcome));
    }
    case.pair("noop".into(), "ok".into());
    case.nontrivial = true;
    case.key = format!("pollbig:{}:{}:{}", how, nmsgs, len);
    case.tags.push("poll_during_multi_packet_send".into());
    case
}

pub fn run(args: &[String]) {
    let thorough = arg(args, "--tier").as_deref() == Some("thorough");
    let seed = arg_u64(args, "--seed", 1);
    let n = arg_u64(args, "--n", if thorough { 2000 } else { 100 });
    #[cfg(not(feature = "force-inprocess"))]
    let max = {
        crate::interpose::SPOOF_SNDBUF.store(4608, std::sync::atomic::Ordering::SeqCst);
        let _ = crate::frag::effective_sys();
        ipc_channel::platform::OsIpcSender::get_max_fragment_size()
    };
    #[cfg(feature = "force-inprocess")]
    let max = 4568usize;
    let build = if cfg!(feature = "force-inprocess") { "inprocess" } else if cfg!(feature = "memfd") { "memfd" } else { "os" };
    let trace_on = !cfg!(feature = "force-inprocess");
    let mut rng = Rng::new(seed ^ 0x71ed);
    #[cfg(not(feature = "force-inprocess"))]
    let _g = crate::interpose::install(crate::interpose::Ctx::new(0));
    let durations: [u64; 8] = [0, 1, 300, 999, 1000, 1500, 3000, 12_000]; // microseconds
    if seed % 2 == 1 {
        // once per check (the scenario is started with two seeds): polling receivers against multi-packet sends in progress
        let lens: &[usize] = if thorough { &[300_000, 1 << 20, 4 << 20] } else { &[1 << 20] };
        let mut k = 0;
        for &len in lens {
            for how in 0..4 {
                poll_during_big_sends_case(format!("timed-{}-pollbig-{}", build, k), how, 3, len).emit();
                k += 1;
            }
        }
    }
    for i in 0..n {
        let mut case = Case::new(format!("timed-{}-{}", build, i));
        #[cfg(not(feature = "force-inprocess"))]
        let _ = crate::interpose::take_trace();
        let (tx, rx): (IpcSender<Msg>, IpcReceiver<Msg>) = ipc::channel().unwrap();
        #[cfg(not(feature = "force-inprocess"))]
        let rfd = {
            use crate::interpose::Ev;
            let mut r = -1;
            for (_, e) in crate::interpose::take_trace() {
                if let Ev::Socketpair { b, .. } = e {
                    r = b;
                }
            }
            r
        };
        let mut senders = vec![tx];
        let mut queued: Vec<u64> = Vec::new();
        let mut tag = (i + 1) * 1000;
        let mut classes = std::collections::HashMap::new();
        let mut ops: Vec<String> = Vec::new();
        let mut outs: Vec<String> = Vec::new();
        let nops = rng.range(4, 14);
        for _ in 0..nops {
            let k = rng.below(12);
            match k {
                0..=2 if !senders.is_empty() && queued.len() < 6 => {
                    tag += 1;
                    let class = rng.below(4);
                    classes.insert(tag, class);
                    let s = &senders[rng.below(senders.len() as u64) as usize];
                    if let Err(e) = s.send((tag, pad_for(tag, class, max))) {
                        case.fail(format!("send failed: {:?}", e));
                    }
                    queued.push(tag);
                    ops.push(format!("send {}", tag));
                    case.tags.push(format!("send_class={}", class));
                },
                3 if !senders.is_empty() && senders.len() < 3 => {
                    let s = senders[0].clone();
                    senders.push(s);
                    ops.push("clone".into());
                },
                4 if !senders.is_empty() => {
                    senders.pop();
                    ops.push("dropsnd".into());
                },
                5..=7 => {
                    let t0 = Instant::now();
                    let r = rx.try_recv();
                    let el = t0.elapsed();
                    let txt = res_text(&r, &classes, max, &mut case);
                    let want = expect(&queued, senders.len());
                    if txt != want {
                        case.fail(format!("try_recv returned {} where {} is due ({} message(s) completely queued, {} sender handle(s))", txt, want, queued.len(), senders.len()));
                    }
                    if el > Duration::from_secs(2) {
                        case.fail(format!("try_recv took {:?}", el));
                    }
                    if r.is_ok() {
                        queued.remove(0);
                    }
                    ops.push("try".into());
                    #[cfg(not(feature = "force-inprocess"))]
                    outs.push(format!("{} ={}", canon_trace(rfd), txt));
                    #[cfg(feature = "force-inprocess")]
                    outs.push(txt.clone());
                    case.tags.push(format!("try={}", txt.split(':').next().unwrap()));
                },
                8..=10 => {
                    let us = durations[rng.below(durations.len() as u64) as usize];
                    let d = Duration::from_micros(us);
                    let t0 = Instant::now();
                    let r = rx.try_recv_timeout(d);
                    let el = t0.elapsed();
                    let txt = res_text(&r, &classes, max, &mut case);
                    let want = expect(&queued, senders.len());
                    if txt != want {
                        case.fail(format!("try_recv_timeout returned {} where {} is due ({} message(s) completely queued, {} sender handle(s))", txt, want, queued.len(), senders.len()));
                    }
                    if txt == "empty" && el < Duration::from_millis(us / 1000) {
                        case.fail(format!("try_recv_timeout({:?}) reported empty after only {:?}", d, el));
                    }
                    if txt != "empty" && el > Duration::from_secs(2) {
                        case.fail(format!("try_recv_timeout({:?}) took {:?} although a message or the disconnection was pending", d, el));
                    }
                    if r.is_ok() {
                        queued.remove(0);
                    }
                    ops.push(format!("tmo {}", us));
                    #[cfg(not(feature = "force-inprocess"))]
                    outs.push(format!("{} ={}", canon_trace(rfd), txt));
                    #[cfg(feature = "force-inprocess")]
                    outs.push(txt.clone());
                    case.tags.push(format!("tmo={}", txt.split(':').next().unwrap()));
                    case.tags.push(format!("tmo_us={}", us));
                },
                11 if !queued.is_empty() || senders.is_empty() => {
                    // a blocking recv that cannot block: something is queued or the channel is finished
                    let r = rx.recv().map_err(TryRecvError::IpcError);
                    let txt = res_text(&r, &classes, max, &mut case);
                    let want = expect(&queued, senders.len());
                    if txt != want {
                        case.fail(format!("recv returned {} where {} is due ({} message(s) completely queued, {} sender handle(s))", txt, want, queued.len(), senders.len()));
                    }
                    if r.is_ok() {
                        queued.remove(0);
                    }
                    ops.push("recv".into());
                    #[cfg(not(feature = "force-inprocess"))]
                    outs.push(format!("{} ={}", canon_trace(rfd), txt));
                    #[cfg(feature = "force-inprocess")]
                    outs.push(txt.clone());
                    case.tags.push(format!("recv={}", txt.split(':').next().unwrap()));
                },
                _ => {},
            }
            #[cfg(not(feature = "force-inprocess"))]
            if flag_set(rfd) {
                case.fail(format!("O_NONBLOCK is set on the receiver between API calls (after `{}`)", ops.last().cloned().unwrap_or_default()));
            }
        }
        // drain what is queued (model: try until not a message)
        while !queued.is_empty() {
            let r = rx.try_recv();
            let txt = res_text(&r, &classes, max, &mut case);
            if !r.is_ok() {
                case.fail(format!("try_recv reported {} although message {} is completely queued", txt, queued[0]));
                break;
            }
            queued.remove(0);
            ops.push("try".into());
            #[cfg(not(feature = "force-inprocess"))]
            outs.push(format!("{} ={}", canon_trace(rfd), txt));
            #[cfg(feature = "force-inprocess")]
            outs.push(txt.clone());
        }
        case.pair(format!("timed trace={} | {}", if trace_on { 1 } else { 0 }, ops.join(" | ")), outs.join(" ; "));
        // epilogue with a second thread
        if !senders.is_empty() {
            let kind = rng.below(5);
            let delay = Duration::from_millis(30);
            tag += 1;
            let etag = tag;
            let class = match kind {
                3 => 3,
                _ => 1,
            };
            classes.insert(etag, class);
            let pad = pad_for(etag, class, max);
            let mut all = std::mem::take(&mut senders);
            // when the second thread starts to act (taken by that thread itself: comparing with a clock started on this
            // thread after the spawn raised a false alarm under load — the spawn-to-clock gap can exceed the margin)
            let acted_at = std::sync::Arc::new(std::sync::Mutex::new(None::<Instant>));
            let acted_at2 = acted_at.clone();
            let h = std::thread::spawn(move || {
                std::thread::sleep(delay);
                *acted_at2.lock().unwrap() = Some(Instant::now());
                match kind {
                    2 => drop(all.drain(..).collect::<Vec<_>>()),
                    _ => {
                        let _ = all[0].send((etag, pad));
                    },
                }
                // keep the remaining handles until the receiver has seen the event
                std::thread::sleep(Duration::from_millis(20));
                drop(all);
            });
            let t0 = Instant::now();
            let (what, r): (&str, Result<Msg, TryRecvError>) = match kind {
                0 | 4 => ("recv", rx.recv().map_err(TryRecvError::IpcError)),
                _ => ("try_recv_timeout(3s)", rx.try_recv_timeout(Duration::from_secs(3))),
            };
            let el = t0.elapsed();
            let returned_at = Instant::now();
            let txt = res_text(&r, &classes, max, &mut case);
            let want = if kind == 2 { "disc".to_string() } else { format!("msg:{}", etag) };
            if txt != want {
                case.fail(format!(
                    "{} issued on an idle connected channel after the script returned {} after {:?}; expected {} once the second thread acted at 30 ms",
                    what, txt, el, want
                ));
            }
            let early = match *acted_at.lock().unwrap() {
                Some(t) => returned_at < t,
                None => true,
            };
            if early {
                case.fail(format!("{} returned {} after {:?}, before the second thread acted", what, txt, el));
            }
            if el > Duration::from_millis(2500) {
                case.fail(format!("{} returned only after {:?} although the event happened at 30 ms", what, el));
            }
            let _ = h.join();
            #[cfg(not(feature = "force-inprocess"))]
            {
                let tr = canon_trace(rfd);
                let (req, exp) = match kind {
                    0 | 4 => ("recv", "R".to_string()),
                    // the last sender is dropped during the wait: the end of file is confirmed by a second recvmsg
                    2 => ("tmo 3000000", "P3000 R R".to_string()),
                    _ => ("tmo 3000000", "P3000 R".to_string()),
                };
                let _ = req;
                // the model cannot exhibit the wake-up itself; compare the call sequence only
                case.pair("noop".into(), if tr == exp { "ok".into() } else { format!("trace `{}` expected `{}`", tr, exp) });
                if flag_set(rfd) {
                    case.fail("O_NONBLOCK is set on the receiver after the epilogue".into());
                }
            }
            case.tags.push(format!("epilogue={}", ["recv_blocks_until_send", "timeout_early_msg", "timeout_early_disc", "timeout_early_multipacket", "recv_blocks_until_send"][kind as usize]));
        } else {
            case.tags.push("epilogue=none(no sender left)".into());
        }
        case.nontrivial = ops.iter().filter(|o| *o == "try" || o.starts_with("tmo") || *o == "recv").count() >= 2;
        case.key = ops.join("|");
        case.tags.push(format!("build={}", build));
        case.tags.sort();
        case.tags.dedup();
        case.emit();
    }
}
