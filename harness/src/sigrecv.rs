//! Scenario `sigrecv` (C02, C06): a signal handled by the receiving thread while it reassembles a multi-fragment message —
//! the blocking recv() on the dedicated socket answers EINTR (injected by the interposer at the k-th such call, one or several
//! times in a row, as the kernel does when a handler installed without SA_RESTART runs).  Nothing has been transferred by
//! an interrupted call, so the receive has to go on: every message is delivered once, whole, in order — through a blocking
//! recv, a polling try_recv, and a receiver set in which another member has messages in the same batch.
use crate::interpose as ip;
use crate::util::*;
use ipc_channel::platform::{self, OsIpcReceiverSet, OsIpcSelectionResult};
use std::sync::atomic::Ordering;
use std::time::{Duration, Instant};

fn body(tag: u8, len: usize) -> Vec<u8> {
    (0..len).map(|i| tag.wrapping_mul(37).wrapping_add((i % 249) as u8)).collect()
}

fn one_case(id: String, sys: usize, nfrag: usize, mask: u64, path: u64) -> Case {
    let mut case = Case::new(id);
    let max = platform::OsIpcSender::get_max_fragment_size();
    let fs = sys - 32;
    let len = max + (nfrag - 2) * fs + fs / 2 + 1; // nfrag packets
    let (tx, rx) = platform::channel().unwrap();
    let (tx2, rx2) = platform::channel().unwrap();
    let big = body(1, len);
    let big2 = big.clone();
    // the other member's traffic is queued before anything is received
    tx2.send(&body(7, 50), vec![], vec![]).unwrap();
    tx2.send(&body(8, 60), vec![], vec![]).unwrap();
    let s = std::thread::spawn(move || {
        let a = tx.send(&big2, vec![], vec![]).is_ok();
        let b = tx.send(&body(2, 100), vec![], vec![]).is_ok();
        a && b
    });
    let got = with_watchdog(5, move || {
        let _g = ip::install(ip::Ctx::new(1));
        ip::EINTR_RECV_CALLNO.store(0, Ordering::SeqCst);
        ip::EINTR_RECV_MASK.store(mask, Ordering::SeqCst);
        let mut mine: Vec<Result<Vec<u8>, String>> = Vec::new();
        let mut other: Vec<Vec<u8>> = Vec::new();
        match path {
            0 => {
                for _ in 0..2 {
                    mine.push(rx.recv().map(|m| m.0).map_err(|e| format!("{:?}", e)));
                }
            },
            1 => {
                let t0 = Instant::now();
                while mine.len() < 2 && t0.elapsed() < Duration::from_secs(4) {
                    match rx.try_recv() {
                        Ok(m) => mine.push(Ok(m.0)),
                        Err(e) if format!("{:?}", e).contains("Empty") || format!("{:?}", e).contains("11") => std::thread::yield_now(),
                        Err(e) => mine.push(Err(format!("{:?}", e))),
                    }
                }
            },
            _ => {
                let mut set = OsIpcReceiverSet::new().unwrap();
                let ida = set.add(rx2).unwrap();
                let idb = set.add(rx).unwrap();
                let t0 = Instant::now();
                while (mine.len() < 2 || other.len() < 2) && t0.elapsed() < Duration::from_secs(4) {
                    match set.select() {
                        Ok(evs) => {
                            for ev in evs {
                                if let OsIpcSelectionResult::DataReceived(i, d, _, _) = ev {
                                    if i == idb {
                                        mine.push(Ok(d));
                                    } else if i == ida {
                                        other.push(d);
                                    }
                                }
                            }
                        },
                        Err(e) => mine.push(Err(format!("select: {:?}", e))),
                    }
                    if mine.iter().filter(|m| m.is_err()).count() > 3 {
                        break;
                    }
                }
            },
        }
        ip::EINTR_RECV_MASK.store(0, Ordering::SeqCst);
        let injected = ip::take_trace().iter().filter(|(_, e)| matches!(e, ip::Ev::Recv { r: -1, errno, .. } if *errno == libc::EINTR)).count();
        (mine, other, injected)
    });
    ip::EINTR_RECV_MASK.store(0, Ordering::SeqCst);
    let sent_ok = s.join().unwrap_or(false);
    match got {
        None => case.fail(format!("receive of a {}-fragment message with recv() interrupted (mask {:#b}, path {}) did not finish within 5 s", nfrag, mask, path)),
        Some((mine, other, injected)) => {
            case.tags.push(format!("eintr_injected={}", injected));
            let errs: Vec<&String> = mine.iter().filter_map(|m| m.as_ref().err()).collect();
            if !errs.is_empty() {
                case.fail(format!("a receive interrupted by a signal during reassembly returned an error ({}) — the {}-fragment message is lost (mask {:#b}, path {})",
                                  errs[0], nfrag, mask, path));
            }
            let oks: Vec<&Vec<u8>> = mine.iter().filter_map(|m| m.as_ref().ok()).collect();
            if sent_ok && (oks.len() != 2 || *oks[0] != big || *oks[1] != body(2, 100)) && case.oracle.is_none() {
                case.fail(format!("messages delivered after an interrupted reassembly: {} (lengths {:?}) instead of the {}-byte message and its successor", oks.len(),
                                  oks.iter().map(|m| m.len()).collect::<Vec<_>>(), len));
            }
            if path == 2 && (other.len() != 2 || other[0] != body(7, 50) || other[1] != body(8, 60)) {
                case.fail(format!("the other member of the set lost messages read in the same select call as the interrupted reassembly: got {} of 2", other.len()));
            }
            case.nontrivial = injected > 0;
        },
    }
    if !sent_ok {
        case.fail("the sender's send failed".into());
    }
    case.pair("noop".into(), "ok".into());
    case.key = format!("{}:{}:{}:{}", sys, nfrag, mask, path);
    case
}

pub fn run(args: &[String]) {
    let thorough = arg(args, "--tier").as_deref() == Some("thorough");
    let sys_arg = arg_u64(args, "--sys", 8192) as usize;
    ip::SPOOF_SNDBUF.store(sys_arg, Ordering::SeqCst);
    let sys = crate::frag::effective_sys();
    let mut n = 0;
    let frags: &[usize] = if thorough { &[2, 3, 4, 6, 9] } else { &[2, 3, 5] };
    for &nfrag in frags {
        let mut masks: Vec<u64> = (0..(nfrag - 1).min(6)).map(|k| 1u64 << k).collect();
        masks.push(0b11);
        masks.push(0b101);
        masks.push(0b111);
        if thorough {
            for m in 0..(1u64 << (nfrag.min(6))) {
                masks.push(m);
            }
        }
        masks.push(0);
        for mask in masks {
            for path in 0..3 {
                one_case(format!("sigrecv-{}", n), sys, nfrag, mask, path).emit();
                n += 1;
            }
        }
    }
}
