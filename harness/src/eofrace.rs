//! Scenario `eofrace` (C03, C02, C06): a sender queues a message and drops its handle right away while the receiver is polling.
//! The kernel reports end of file as soon as it sees the peer's shutdown, and it looks at the queue first: without a
//! confirming second look the receiver is told "disconnected" while the message is queued (D16, found on the pinned tree at
//! a rate of about 4 in 10 000 channels with a spinning `try_recv`; a receiver set then closes the member and the message is
//! lost for good).  Every channel must deliver its one message before it reports disconnection.
use crate::util::*;
use ipc_channel::platform::{self, OsIpcReceiverSet, OsIpcSelectionResult};
use std::sync::mpsc;
use std::time::{Duration, Instant};

fn spin(secs_x10: u64, use_set: bool) -> (u64, u64) {
    let (htx, hrx) = mpsc::channel::<platform::OsIpcSender>();
    let sender = std::thread::spawn(move || {
        while let Ok(tx) = hrx.recv() {
            let _ = tx.send(b"x", vec![], vec![]);
            drop(tx);
        }
    });
    let t0 = Instant::now();
    let (mut n, mut bad) = (0u64, 0u64);
    while t0.elapsed() < Duration::from_millis(100 * secs_x10) {
        n += 1;
        let (tx, rx) = platform::channel().unwrap();
        let mut got = false;
        if use_set {
            let mut set = OsIpcReceiverSet::new().unwrap();
            set.add(rx).unwrap();
            htx.send(tx).unwrap();
            'outer: loop {
                match set.select() {
                    Ok(rs) => {
                        for r in rs {
                            match r {
                                OsIpcSelectionResult::DataReceived(..) => got = true,
                                OsIpcSelectionResult::ChannelClosed(_) => break 'outer,
                            }
                        }
                    },
                    Err(_) => break,
                }
            }
        } else {
            htx.send(tx).unwrap();
            loop {
                match rx.try_recv() {
                    Ok(_) => got = true,
                    Err(e) if e.channel_is_closed() => break,
                    Err(_) => {},
                }
            }
        }
        if !got {
            bad += 1;
        }
    }
    drop(htx);
    let _ = sender.join();
    (n, bad)
}

pub fn run(args: &[String]) {
    let thorough = arg(args, "--tier").as_deref() == Some("thorough");
    let tenths = arg_u64(args, "--tenths", if thorough { 150 } else { 20 });
    for (mode, use_set) in [("try_recv", false), ("select", true)] {
        let hs: Vec<_> = (0..4).map(|_| std::thread::spawn(move || spin(tenths, use_set))).collect();
        let (mut n, mut bad) = (0, 0);
        for h in hs {
            let (a, b) = h.join().unwrap();
            n += a;
            bad += b;
        }
        let mut c = Case::new(format!("eofrace-{}", mode));
        if bad > 0 {
            c.fail(format!(
                "{} of {} channels reported disconnection through {} before delivering the message that was sent before the sender was dropped",
                bad, n, mode
            ));
        }
        c.pair("noop".into(), "ok".into());
        c.nontrivial = n > 1000;
        c.key = format!("eofrace:{}", mode);
        c.tags.push(format!("channels>={}", n / 10000 * 10000));
        c.emit();
    }
}
