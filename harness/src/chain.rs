//! Scenario `chain` (C04): a receiver is transferred over 1..5 hops — inside carrier messages that also hold senders
//! before and after it, regions and padding (small or multi-packet) — to the same thread, another thread or another
//! process and back, while messages are sent to its channel before, between and after the hops.  Every received
//! endpoint is used (the extra senders send one message each, the regions are compared), and at the end the final handle
//! must yield everything that was ever sent on the channel, in order.  The whole history is also given to `Ideal.run`.
//! Uses the ipc-level API only, so it runs on the OS, memfd and in-process builds (process hops on the OS builds only).
use crate::util::*;
use ipc_channel::ipc::{self, IpcReceiver, IpcSender, IpcSharedMemory, TryRecvError};
use serde::{Deserialize, Serialize};

#[derive(Serialize, Deserialize)]
pub struct Carry {
    tag: u64,
    pad: Vec<u8>,
    pre: Vec<IpcSender<u64>>,
    rx: IpcReceiver<u64>,
    regions: Vec<IpcSharedMemory>,
    post: Vec<IpcSender<u64>>,
}

fn region_bytes(id: u64) -> Vec<u8> {
    let n = [1usize, 4095, 4096, 4097, 10_000, 0][(id % 6) as usize];
    (0..n).map(|i| (id as u8).wrapping_mul(17).wrapping_add(i as u8)).collect()
}

/// child role (process hop): hand a carrier sender and a return receiver to the parent, then bounce one Carry
#[cfg(not(feature = "force-inprocess"))]
pub fn child(args: &[String]) {
    let name = arg(args, "--name").unwrap();
    let boot: IpcSender<(IpcSender<Carry>, IpcReceiver<Carry>)> = IpcSender::connect(name).unwrap();
    let (ctx, crx) = ipc::channel::<Carry>().unwrap();
    let (rtx, rrx) = ipc::channel::<Carry>().unwrap();
    boot.send((ctx, rrx)).unwrap();
    let c = crx.recv().unwrap();
    rtx.send(c).unwrap();
}

pub fn run(args: &[String]) {
    let thorough = arg(args, "--tier").as_deref() == Some("thorough");
    let seed = arg_u64(args, "--seed", 1);
    let n = arg_u64(args, "--n", if thorough { 1000 } else { 100 });
    let build = if cfg!(feature = "force-inprocess") { "inprocess" } else if cfg!(feature = "memfd") { "memfd" } else { "os" };
    let mut rng = Rng::new(seed ^ 0xc4a1);
    for i in 0..n {
        let mut case = Case::new(format!("chain-{}-{}", build, i));
        let mut ops: Vec<String> = vec!["new".into()];
        let mut res: Vec<String> = vec!["ok".into()];
        let (dtx, drx0) = ipc::channel::<u64>().unwrap();
        let mut drx = Some(drx0);
        let mut nchan = 1usize; // channel 0 = D
        let mut tag = 100u64;
        let mut sent: Vec<u64> = Vec::new();
        let mut region_id = 0u64;
        let hops = rng.range(1, 5);
        macro_rules! send_d {
            ($tx:expr) => {{
                tag += 1;
                match $tx.send(tag) {
                    Ok(()) => {
                        sent.push(tag);
                        res.push("ok".into());
                    },
                    Err(e) => {
                        case.fail(format!("send on the transferred channel failed: {:?}", e));
                        res.push("senderr".into());
                    },
                }
                ops.push(format!("send 0 {}", tag));
            }};
        }
        for _ in 0..rng.below(4) {
            send_d!(dtx);
        }
        // sometimes a few messages are received before the first hop
        let mut received: Vec<u64> = Vec::new();
        if rng.chance(1, 3) && !sent.is_empty() {
            match drx.as_ref().unwrap().recv() {
                Ok(t) => {
                    received.push(t);
                    ops.push("recv 0".into());
                    res.push(format!("msg:{}:-", t));
                },
                Err(e) => case.fail(format!("recv failed: {:?}", e)),
            }
        }
        for h in 0..hops {
            let kind = rng.below(if cfg!(feature = "force-inprocess") { 2 } else { 3 });
            // carrier message: senders of D before and after the receiver, regions, padding
            let npre = rng.below(3) as usize;
            let npost = rng.below(2) as usize;
            let nreg = rng.below(3) as usize;
            let big = rng.chance(1, 3);
            let mut hs: Vec<String> = Vec::new();
            let mut regs = Vec::new();
            let mut reg_ids = Vec::new();
            for _ in 0..npre {
                hs.push("s0".into());
            }
            hs.push("r0".into());
            for _ in 0..nreg {
                let id = region_id;
                region_id += 1;
                regs.push(IpcSharedMemory::from_bytes(&region_bytes(id)));
                reg_ids.push(id);
                hs.push(format!("m{}", id));
            }
            for _ in 0..npost {
                hs.push("s0".into());
            }
            tag += 1;
            let ctag = tag;
            let carry = Carry {
                tag: ctag,
                pad: vec![h as u8; if big { 300_000 } else { 33 }],
                pre: (0..npre).map(|_| dtx.clone()).collect(),
                rx: drx.take().unwrap(),
                regions: regs,
                post: (0..npost).map(|_| dtx.clone()).collect(),
            };
            let back: Option<Carry> = match kind {
                0 | 1 => {
                    // same thread (small only: nobody drains a multi-packet message) or another thread
                    let (ctx, crx) = ipc::channel::<Carry>().unwrap();
                    let c = nchan;
                    nchan += 1;
                    ops.push("new".into());
                    res.push("ok".into());
                    ops.push(format!("send {} {} {}", c, ctag, hs.join(" ")));
                    let other_thread = kind == 1 || big;
                    let got = if other_thread {
                        let t = std::thread::spawn(move || crx.recv());
                        let r = ctx.send(carry);
                        res.push(if r.is_ok() { "ok".into() } else { "senderr".into() });
                        // messages sent to D while its receiver is in transit / held by the other thread
                        if rng.chance(1, 2) {
                            send_d!(dtx);
                        }
                        t.join().unwrap()
                    } else {
                        let r = ctx.send(carry);
                        res.push(if r.is_ok() { "ok".into() } else { "senderr".into() });
                        if rng.chance(1, 2) {
                            send_d!(dtx);
                        }
                        crx.recv()
                    };
                    ops.push(format!("recv {}", c));
                    case.tags.push(format!("hop={}", if other_thread { "thread" } else { "same_thread" }));
                    match got {
                        Ok(cm) => Some(cm),
                        Err(e) => {
                            case.fail(format!("carrier message not received: {:?}", e));
                            res.push("error".into());
                            None
                        },
                    }
                },
                _ => {
                    #[cfg(not(feature = "force-inprocess"))]
                    {
                        let (server, name) = ipc::IpcOneShotServer::<(IpcSender<Carry>, IpcReceiver<Carry>)>::new().unwrap();
                        let mut ch = std::process::Command::new(std::env::current_exe().unwrap()).args(["chainchild", "--name", &name]).spawn().unwrap();
                        let (_, (ctx, rrx)) = server.accept().unwrap();
                        let c = nchan;
                        let r = nchan + 1;
                        nchan += 2;
                        ops.push("new".into());
                        res.push("ok".into());
                        ops.push("new".into());
                        res.push("ok".into());
                        ops.push(format!("send {} {} {}", c, ctag, hs.join(" ")));
                        let sr = ctx.send(carry);
                        res.push(if sr.is_ok() { "ok".into() } else { "senderr".into() });
                        if rng.chance(1, 2) {
                            send_d!(dtx);
                        }
                        let got = rrx.recv();
                        let _ = ch.wait();
                        // in the model: the child receives the carrier message and sends the same handles back
                        ops.push(format!("recv {}", c));
                        res.push(format!("msg:{}:{}", ctag, hs.join(",")));
                        // the senders it obtained are cloned into the return message and then die with the child
                        ops.push(format!("send {} {} {}", r, ctag, hs.join(" ")));
                        res.push("ok".into());
                        for _ in 0..(npre + npost) {
                            ops.push("dropsnd 0".into());
                            res.push("ok".into());
                        }
                        ops.push(format!("recv {}", r));
                        case.tags.push("hop=process".into());
                        match got {
                            Ok(cm) => Some(cm),
                            Err(e) => {
                                case.fail(format!("carrier message did not come back from the other process: {:?}", e));
                                res.push("error".into());
                                None
                            },
                        }
                    }
                    #[cfg(feature = "force-inprocess")]
                    {
                        None
                    }
                },
            };
            let cm = match back {
                Some(c) => c,
                None => break,
            };
            res.push(format!("msg:{}:{}", cm.tag, hs.join(",")));
            if cm.tag != ctag || cm.pad.len() != if big { 300_000 } else { 33 } || cm.pre.len() != npre || cm.post.len() != npost || cm.regions.len() != nreg {
                case.fail(format!(
                    "carrier message arrived altered: tag {} pad {} pre {} regions {} post {}",
                    cm.tag,
                    cm.pad.len(),
                    cm.pre.len(),
                    cm.regions.len(),
                    cm.post.len()
                ));
            }
            for (j, m) in cm.regions.iter().enumerate() {
                if reg_ids.get(j).map(|id| region_bytes(*id)) != Some(m.to_vec()) {
                    case.fail(format!("region at position {} of the carrier message arrived with other contents", j));
                }
            }
            // every received sender is a sender of D: use it once, then drop it
            for s in cm.pre.iter().chain(cm.post.iter()) {
                send_d!(s);
            }
            for _ in 0..(cm.pre.len() + cm.post.len()) {
                ops.push("dropsnd 0".into());
                res.push("ok".into());
            }
            drx = Some(cm.rx);
            case.tags.push(format!("carrier={}", if big { "multi_packet" } else { "small" }));
            if nreg > 0 && (npre > 0 || npost > 0) {
                case.tags.push("mixed=senders+receiver+regions".into());
            }
            for _ in 0..rng.below(3) {
                send_d!(dtx);
            }
        }
        // the final handle yields everything ever sent, in order
        if let Some(rx) = drx.as_ref() {
            let expect: Vec<u64> = sent.iter().filter(|t| !received.contains(t)).cloned().collect();
            for want in &expect {
                ops.push("recv 0".into());
                match rx.try_recv_timeout(std::time::Duration::from_secs(5)) {
                    Ok(t) => {
                        res.push(format!("msg:{}:-", t));
                        if t != *want {
                            case.fail(format!("transferred receiver yielded {} where {} was due (sent in order {:?})", t, want, sent));
                        }
                    },
                    Err(TryRecvError::Empty) => {
                        res.push("empty".into());
                        case.fail(format!("message {} sent to the transferred channel never arrived on the final handle", want));
                    },
                    Err(e) => {
                        res.push("error".into());
                        case.fail(format!("receive on the final handle failed: {:?}", e));
                    },
                }
            }
            ops.push("recv 0".into());
            match rx.try_recv() {
                Err(TryRecvError::Empty) => res.push("empty".into()),
                Ok(t) => {
                    res.push(format!("msg:{}:-", t));
                    case.fail(format!("a message ({}) arrived that was never sent or was delivered twice", t));
                },
                Err(e) => {
                    res.push("error".into());
                    case.fail(format!("idle connected channel reported {:?}", e));
                },
            }
        }
        case.pair(format!("ideal {}", ops.join(" | ")), res.join(" "));
        case.nontrivial = hops >= 1;
        case.key = ops.join("|");
        case.tags.push(format!("hops={}", hops));
        case.tags.push(format!("build={}", build));
        case.tags.sort();
        case.tags.dedup();
        case.emit();
    }
}
