#!/bin/sh
# usage: tools/seedtest.sh <patch.diff> C01 C02 ...   -- applies a seeded change to /repo, runs the quick checks, undoes it
set -u
P="$1"; shift
cd /verif
rm -rf /verif/work/evidence.keep; cp -r /verif/evidence /verif/work/evidence.keep
git -C /repo apply "$P" || { echo "patch does not apply"; exit 2; }
for c in "$@"; do ./check "$c" 2>&1 | grep -E 'VIOLATION|KNOWN|quick:' | cut -c1-220; done
git -C /repo checkout -- .
# evidence files must come from runs on the unchanged tree: put back what was there before the seeded run
cp /verif/work/evidence.keep/*.json /verif/evidence/ 2>/dev/null
git -C /repo status --short | head -3
