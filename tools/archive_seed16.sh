#!/bin/sh
# usage: tools/archive_seed3.sh <Cxx> <suffix> <checks...>  -- fourth-round seeds: /tmp/seedout16/<Cxx>, worktree /tmp/wt/<Cxx>c; stored as seeded/<Cxx>-<suffix>
set -u
ID="$1"; SUF="$2"; shift; shift
L=$(echo "$ID" | tr A-Z a-z)
SD=/verif/seeded/$ID-$SUF
mkdir -p "$SD"
cp /tmp/seedout16/$ID/patch.diff /tmp/seedout16/$ID/notes.md "$SD"/ 2>/dev/null
cp /tmp/seedout16/$ID/seed_$L.rs "$SD"/
/verif/tools/confirm_seed.sh "$ID" /tmp/wt/${ID}q "$SD" seed_$L "${SEED_EXTRA:-}"
grep -E "test result|patch" "$SD/confirm.txt"
/verif/tools/seedtest.sh "$SD/patch.diff" "$@" > "$SD/run.txt" 2>&1
cat "$SD/run.txt"
