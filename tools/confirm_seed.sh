#!/bin/sh
# usage: confirm_seed.sh <Cxx> <worktree> <seed dir> <demo test name (cargo --test NAME)> [extra cargo flags for the demo, e.g. "--features async"]
# confirms: patch applies on a clean tree, crate builds, lib tests pass (82), demo fails with the patch and passes without it
set -u
ID="$1"; WT="$2"; SD="$3"; DEMO="$4"; EXTRA="${5:-}"
OUT="$SD/confirm.txt"
cd "$WT" || exit 2
export CARGO_NET_OFFLINE=true
{
echo "== confirm $ID $(date)"
git checkout -q -- . 2>/dev/null   # (no git stash: the stash stack is shared by all worktrees)
git apply "$SD/patch.diff" && echo "patch applies"
echo "-- lib tests with patch"; cargo test --offline --lib 2>&1 | grep -E '^test result' 
echo "-- demo with patch (expected to FAIL)"; cargo test --offline $EXTRA --test "$DEMO" 2>&1 | grep -E '^test result|panicked|FAILED' | head -14
git apply -R "$SD/patch.diff" && echo "patch reverted"
echo "-- demo without patch (expected to PASS)"; cargo test --offline $EXTRA --test "$DEMO" 2>&1 | grep -E '^test result|panicked|FAILED' | head -14
git apply "$SD/patch.diff"
} > "$OUT" 2>&1
