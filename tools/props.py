"""Per-property configuration for ./check: Lean modules and theorem names (P), harness scenarios (T, O),
failing-input search used when P or T breaks, evidence texts."""
import json, os, subprocess, sys

ROOT = os.path.dirname(os.path.dirname(os.path.abspath(__file__)))
HARNESS = os.path.join(ROOT, 'harness')
DRIVER = os.path.join(ROOT, 'lean', '.lake', 'build', 'bin', 'driver')

TRUSTED_BASE = [
    'Lean 4.33 kernel (thorough tier: leanchecker replay of the property modules); axioms propext, Classical.choice, Quot.sound only',
    'tools/translate.py (regenerates lean/IpcModel/Gen.lean from /repo/src on every run)',
    'correspondence check: Rust harness (in-binary libc interposer) vs compiled Lean driver on the same requests',
    'Linux AF_UNIX SOCK_SEQPACKET / SCM_RIGHTS / epoll / mmap semantics are modelled, validated only by the traces',
]


def frag_scen(mode, sizes_quick, sizes_thorough):
    def f(tier, seed):
        sizes = sizes_thorough if tier == 'thorough' else sizes_quick
        return [{'args': ['frag', '--sys', str(s), '--mode', mode, '--tier', tier, '--seed', str(seed)]} for s in sizes]
    return f


def driver(lines):
    p = subprocess.run([DRIVER], input='\n'.join(lines) + '\n', stdout=subprocess.PIPE, text=True, timeout=3000)
    return p.stdout.splitlines()


def vh(args, build='default', timeout=600):
    exe = os.path.join(HARNESS, 'target-' + build, 'debug', 'vh')
    p = subprocess.run([exe] + args, stdout=subprocess.PIPE, stderr=subprocess.PIPE, text=True, timeout=timeout, cwd=ROOT)
    cases = []
    for line in p.stdout.splitlines():
        if line.startswith('{'):
            try:
                cases.append(json.loads(line))
            except ValueError:
                pass
    return p.returncode, cases, p.stderr


def search_frag(run):
    """model-side: evaluate the executable property predicate on the regenerated model over every fault pattern
    of length <= 10 and the boundary lengths, for two buffer sizes; replay any counterexample on the real crate.
    implementation-side: the cases already executed whose traces disagree with the model are re-checked by the oracle."""
    if not os.path.exists(DRIVER):
        return None
    for sys_ in (4608, 8192, 10006):
        ans = driver([f'searchfrag sys={sys_} k=10'])
        if ans and ans[0].startswith('counterexample'):
            toks = dict(t.split('=', 1) for t in ans[0].split()[1:] if '=' in t)
            rc, cases, err = vh(['frag', '--sys', str(sys_), '--mode', 'replay', '--len', toks.get('len', '0'),
                                 '--faults', toks.get('faults', '')])
            bad = [c for c in cases if c.get('oracle')]
            if rc != 0 or bad:
                return {'model_counterexample': ans[0], 'implementation': bad[0] if bad else {'exit': rc, 'stderr': err[-1500:]},
                        'replay_cmd': f'harness/target-default/debug/vh frag --sys {sys_} --mode replay --len {toks.get("len")} --faults {toks.get("faults")}'}
    return None


def replay_cmd(pid, case):
    return 'harness/target-%s/debug/vh %s   # case id %s' % (case.get('build', 'default'), ' '.join(case.get('scenario', [])), case.get('id'))


def do_replay(run, path):
    obj = json.load(open(path))
    case = obj.get('case') or (obj.get('correspondence_broken') or [{}])[0]
    scen = case.get('scenario')
    if not scen:
        print('replay file has no executable scenario; proof obligations named in it:', obj.get('proof_obligations_broken'))
        return 1
    run.translate()
    run.lake()
    run.cargo()
    rc, cases, err = vh(scen, case.get('build', 'default'))
    target = [c for c in cases if c['id'] == case.get('id') or c.get('case') == case.get('case')]
    bad = [c for c in target if c.get('oracle')]
    if target and os.path.exists(DRIVER):
        for c in target:
            c['model'] = driver(c['req'])
            if c['model'] != c['impl']:
                bad.append(c)
    for c in bad[:3]:
        print(json.dumps(c, indent=1))
    if bad or rc != 0:
        print(f'VIOLATION property={run.pid} replay={path}')
        return 1
    print('replay: the recorded failure no longer reproduces')
    return 0


PROPS = {}
NOT_CLAIMED = {}

PROPS['C13'] = {
    'modules': ['IpcModel.Props.C13'],
    'theorems': ['C13.C13_safe', 'C13.C13_ok', 'C13.C13_err', 'C13.C13_fds_once', 'C13.C13_shape_fdOrder',
                 'C13.C13_small_enobufs', 'C13.C13_terminates',
                 'Arith.ffs_lt', 'Arith.fs_safe', 'Arith.downsize_spec', 'Arith.downsize_none', 'Frag.recvMsg_shape'],
    'scenarios': frag_scen('c13', [4608, 8192], [4608, 8192]),
    'search': search_frag,
    'rule': ('exhaustive ENOBUFS patterns over the first k transmission attempts (k=7 quick, k=10 thorough) x 5 message '
             'shapes x {no attachments, 2 senders + 1 region} x 2 spoofed send-buffer sizes, plus fatal errors at attempts 0..5; '
             'a case is non-trivial if a fault was injected or more than one system call was made; distinct = distinct '
             '(buffer size, length, attachments, attempt trace)'),
    'explanation': ('Theorems over sendLoop/recvMsg (all arithmetic regenerated from /repo) for every buffer size, length and fault stream; '
                    'tie: attempt-by-attempt equality of the interposed sendmsg/send/recvmsg/recv trace with the model'),
    'assumptions': ['socketpair() for the dedicated socket does not fail', 'kernel delivers SOCK_SEQPACKET packets atomically and in order'],
    'level_text': ('Kernel-checked theorems over the send loop / reassembly model for every buffer size, length and ENOBUFS/fatal fault stream '
                   '(never an out-of-range slice, ok => receiver rebuilds exactly the message with no truncation, err => never taken for complete, '
                   'descriptors on exactly one packet); arithmetic regenerated from the Rust source each run; model tied to the real send/recv by '
                   'attempt-by-attempt system-call trace equality over exhaustive fault patterns'),
    'level_note': 'Trusted: Lean kernel, translator, harness/interposer, Linux seqpacket semantics (atomic ordered packets); socketpair failure not modelled',
}

PROPS['C01'] = {
    'modules': ['IpcModel.Props.C01'],
    'theorems': ['C01.C01_frag', 'C01.C01_single_iff', 'C01.C01_fits', 'Frag.recvMsg_shape', 'Arith.ffs_lt', 'Arith.ffs_mono'],
    'scenarios': frag_scen('c01', [4608, 10006, 65536, 0], [4608, 8192, 10006, 33333, 65536, 0]),
    'search': search_frag,
    'rule': ('lengths 0,1,2,7,8,9, every length within +/-16 of each of the first four packet-capacity boundaries, seeded random lengths and one '
             'large length, per effective send-buffer size (spoofed 4608/10006/65536 — 10006 is not a multiple of 8, so the aligned and the unaligned capacity differ — '
             'and the system default; thorough adds 8192 and 33333); non-trivial = more than one '
             'system call; distinct = distinct (buffer size, length, trace)'),
    'explanation': 'fragmentation/reassembly round trip proved for every length and buffer size; packet traces compared with the model',
    'assumptions': ['kernel delivers SOCK_SEQPACKET packets atomically and in order'],
    'level_text': ('Kernel-checked round-trip theorems (fragmentation for every length and buffer size; bincode value encoding) over the model; '
                   'packet traces and encodings compared with the real crate at every boundary length x buffer size'),
    'level_note': 'Trusted: Lean kernel, translator, harness, Linux seqpacket semantics; serde data model covered by the Value/Schema family only',
    'claimed': False,
}


def wire_scen(mode, nq, nt, extra=None):
    def f(tier, seed):
        n = nt if tier == 'thorough' else nq
        out = [{'args': ['wire', '--mode', mode, '--tier', tier, '--seed', str(seed + k), '--n', str(n // 4)]} for k in range(4)]
        if extra:
            out += extra(tier, seed)
        return out
    return f


def search_wire(run):
    """when the decoder proofs or the correspondence break: re-run the decode fuzz with more cases and other seeds
    (implementation side), and ask the regenerated model for a panic on the mismatching request (model side)"""
    for t in run.t_broken:
        req = t.get('request', '')
        if req.startswith('dec '):
            ans = driver([req])
            if ans and ans[0] == 'panic':
                return {'model_panics_on': req, 'implementation_answer': t.get('impl')}
            # the decoder model *is* the statement "an invalid payload yields an error": a payload the model rejects and the
            # real decoder accepts (or panics on) is a concrete failing input
            if t.get('model') == 'err' and t.get('impl') not in (None, 'err'):
                return {'implementation_vs_specification': {'payload': req, 'real_crate': t.get('impl'), 'model': 'err'},
                        'replay_cmd': 'harness/target-default/debug/vh ' + ' '.join(t.get('scenario', []))}
    for k in range(3):
        rc, cases, err = vh(['wire', '--mode', 'dec', '--seed', str(1000 + k), '--n', '3000'])
        bad = [c for c in cases if c.get('oracle')]
        if bad:
            return {'implementation': bad[0], 'replay_cmd': f'harness/target-default/debug/vh wire --mode dec --seed {1000 + k} --n 3000'}
    return None


PROPS['C16'] = {
    'modules': ['IpcModel.Props.C16', 'IpcModel.Props.C16Script', 'IpcModel.Props.C16Kind'],
    'builds': ['default', 'force-inprocess'],
    'theorems': ['C16.C16_total', 'C16.C16_sound', 'C16.C16_roundtrip', 'Wire.dec_ne_panic_all', 'Wire.dec_sound_all', 'Wire.dec_enc',
                 'C16.C16_to_script', 'C16.C16_takeAll_get', 'C16.C16_shape', 'C16.C16_code_variant',
                 'C16Kind.C16_kind_total', 'C16Kind.C16_kind_partial', 'C16Kind.C16_kind_match'],
    'scenarios': (lambda a: (lambda tier, seed: a(tier, seed) + [{'args': ['crash', '--shape', str(i), '--tier', tier]} for i in ((1, 2, 5) if tier == 'thorough' else (1,))]
                             + [{'build': b, 'args': ['kindmix']} for b in ('default', 'force-inprocess')]))(wire_scen('dec', 2400, 40000)),
    'search': search_wire,
    'rule': ('12 expected types x 4 styles (random bytes; valid encoding; mutated valid encoding; mutated encoding with random attachment lists) '
             'x 0..8 channel attachments (sender or receiver ends) x 0..3 regions, each decoded by the real IpcReceiver::recv under catch_unwind; '
             'every case is non-trivial; distinct = distinct (type, bytes, attachments); crash: after a message whose sender process was killed mid-send (attachments attached, '
             'discarded by the receiver) the next message must carry exactly its own attachments (count and identity probe); kindmix: a receiver decoded as a sender and vice versa '
             '(top level, in an Option, in a Vec after a well-kinded endpoint) x recv / try_recv / receiver set + to, on the OS and the in-process transport: no panic, and the thread decodes the next message'),
    'explanation': ('decoder totality (never panic), soundness (endpoints are a sub-multiset of this message\'s attachments, each used once) and round trip '
                    'proved for all bytes/attachments/types of the Schema family; the real decoder compared result-by-result with the model; release of unused '
                    'attachments checked by observing disconnection and /proc/self/fd'),
    'assumptions': ['expected types are drawn from the Schema family (ints, bool, str, option, seq, tuple, enum, sender, receiver, region)',
                    'Rust ownership drops partially built values on error (not modelled; observed by the oracle)'],
    'level_text': ('Kernel-checked: the repaired decoder never panics on any bytes/attachments/type, every decoded endpoint is one of the message\'s '
                   'attachments used at most once, well-typed values round-trip; real decoder vs model on fuzzed and mutated inputs; attachment release '
                   'observed on the real crate'),
    'level_note': ('Trusted: Lean kernel, harness, bincode 1.3 modelled for the Schema family (tied by differential decode); drop-based release observed, not proved. '
                   'Kind mismatch (a receiver decoded as a sender or vice versa): the OS transports cannot tell and hand out an endpoint on the attached descriptor, the in-process '
                   'transport answers a decode error since the repair of D18 (C16_kind_total; kindmix scenario on both builds)'),
}
PROPS['C01']['scenarios'] = (lambda old: (lambda tier, seed: old(tier, seed) + wire_scen('enc', 1200, 20000)(tier, seed) + bytes_scen(['default'], 150, 3000)(tier, seed)))(PROPS['C01']['scenarios'])
PROPS['C01']['modules'] = ['IpcModel.Props.C01', 'IpcModel.Props.C16', 'IpcModel.Props.C01Value']
PROPS['C01']['theorems'] += ['C16.C16_roundtrip', 'Wire.dec_enc', 'C01.C01_value_end_to_end']
PROPS['C01']['claimed'] = True
PROPS['C01']['builds'] = ['default', 'force-inprocess']
PROPS['C01']['scenarios'] = (lambda old: (lambda tier, seed: old(tier, seed) + [{'build': b, 'args': ['bigvalue', '--tier', tier, '--seed', str(seed)], 'timeout': 3000}
                                                                                  for b in ['default', 'force-inprocess']]))(PROPS['C01']['scenarios'])
PROPS['C01']['scenarios'] = (lambda old: (lambda tier, seed: old(tier, seed) + [{'args': ['sigrecv', '--tier', tier]}]))(PROPS['C01']['scenarios'])
PROPS['C01']['rule'] += ('; plus typed values (one string, a sequence of medium-sized strings, halves next to an embedded sender) whose encoding lies on both sides of '
                         'every power of two from 1 MiB to 64 MiB (thorough: 256 MiB), through recv / try_recv_timeout / receiver set + to, on the OS and the in-process transport')
# a send that follows a refused one (failing Serialize impl, failing transport, at any nesting depth) on the same thread must carry
# exactly its own value's bytes (seed C01-6: a reused per-thread serialisation buffer kept the refused send's partial bytes)
PROPS['C01']['scenarios'] = (lambda old: (lambda tier, seed: old(tier, seed) + wire_scen('side', 600, 8000)(tier, seed)))(PROPS['C01']['scenarios'])
def search_c01(run):
    # a serialisation program on which the real send and the model disagree about the bytes of a message is a concrete failing input
    for t in run.t_broken:
        if t.get('request', '').startswith('side '):
            return {'implementation_vs_specification': {'program': t['request'], 'real_crate': t.get('impl'), 'model': t.get('model')},
                    'replay_cmd': 'harness/target-default/debug/vh ' + ' '.join(t.get('scenario', []))}
    return search_frag(run)


PROPS['C01']['search'] = search_c01
PROPS['C01']['rule'] += ('; plus serialisation programs with refused sends (failing node / failing transport, nested) followed by an accepted send on the same '
                         'thread: bytes of every OS-level message compared with the model')
PROPS['C01']['rule'] += ('; plus seeded (schema, value) pairs (nested options/sequences/tuples/enums/strings/ints, with embedded endpoints) sent through the real '
                         'IpcSender::send: wire bytes compared with the model encoder and the received value with the model decoder')


def search_side(run):
    # the side-table model *is* the statement "every OS-level message carries exactly its own attachments": a program on which
    # the real send and the model disagree about the bytes / attachments / result of a message is a concrete failing input
    for t in run.t_broken:
        if t.get('request', '').startswith('side '):
            return {'implementation_vs_specification': {'program': t['request'], 'real_crate': t.get('impl'), 'model': t.get('model')},
                    'replay_cmd': 'harness/target-default/debug/vh ' + ' '.join(t.get('scenario', []))}
    for k in range(3):
        rc, cases, err = vh(['wire', '--mode', 'side', '--seed', str(500 + k), '--n', '3000'])
        bad = [c for c in cases if c.get('oracle')]
        if bad:
            return {'implementation': bad[0], 'replay_cmd': f'harness/target-default/debug/vh wire --mode side --seed {500 + k} --n 3000'}
    return None


PROPS['C14'] = {
    'modules': ['IpcModel.Props.C14'],
    'theorems': ['C14.C14_tables', 'C14.C14_own', 'C14.C14_self_contained', 'C14.C14_fail', 'Side.ser_spec', 'Side.ipcSend_restores',
                 'C14.C14_send_script', 'C14.C14_script_agrees', 'C14.C14_nested_receive'],
    'scenarios': wire_scen('side', 1600, 40000),
    'search': search_side,
    'rule': ('seeded serialisation programs: 1-2 top-level sends of 1..5 nodes {data, sender, receiver, region, empty region, fail, nested send '
             '(depth <= 2, on transports whose receiver may be gone so that the OS send fails)} followed by a plain follow-on message on the same thread; '
             'non-trivial = contains a nested send, a failing node or a failing transport; distinct = distinct program text'),
    'explanation': ('tables restored on every path, own attachments only, every message self-contained: proved for all programs of any depth; real crate '
                    'compared with the model on the bytes and attachment identity of every OS-level message (tapped), results of inner and outer sends, and '
                    'the no-trace oracle (all embedded channels disconnect once handles and messages are dropped)'),
    'assumptions': ['a nested Serialize impl ignores the inner send result (as the harness value does)', 'release of partial attachments is Rust ownership (observed, not proved)'],
    'level_text': ('Kernel-checked: IpcSender::send model restores the thread-local tables on success, serialisation failure, OS failure and at every nesting depth; '
                   'each message carries exactly its own attachments with correct indices; tied to the real send by tapping every OS-level message of random '
                   'nested/failing serialisation programs'),
    'level_note': ('Trusted: Lean kernel, translator (regex extraction of the order of table operations in IpcSender::send / OpaqueIpcMessage::to, rejecting any other table access, '
                   'early exit or branch in their bodies), harness; the recursive model of send() is hand-written, proved to agree level by level with the regenerated script '
                   '(C14_script_agrees) and tied by correspondence (tokens, attachments, results); Drop-based release observed only'),
}


PROPS['C15'] = {
    'modules': ['IpcModel.Props.C15'],
    'theorems': ['C15.C15_limits', 'C15.C15_refuse', 'C15.C15_accept_all', 'C15.osSend_ok', 'Arith.cmsg_fits_iff', 'Arith.cmsg_writer', 'Arith.channelLength_spec'],
    'scenarios': (lambda a: (lambda tier, seed: a(tier, seed) + [{'args': ['crash', '--shape', str(i), '--tier', tier]} for i in ((1, 2, 5) if tier == 'thorough' else (2,))]))(frag_scen('c15', [4608], [4608, 0])),
    'search': search_frag,
    'rule': ('attachment counts {0,1,2,31,62..66,100,252,253,254,300} (thorough: every count 0..300) x data parts {empty, 10 bytes, exactly one packet, '
             'one byte over, three packets} x {senders only, senders + regions}, plus ENOBUFS-forced fragmentation at 62..64 attachments; each case: '
             'send result, receive, every attachment probed, follow-on message; non-trivial = more than one system call or a refusal; distinct = distinct trace'),
    'explanation': ('refusal thresholds regenerated from the source and proved equal to the receiver capacity; accepted => all attachments arrive in order '
                    '(kernel control-buffer truncation modelled), refused => nothing transmitted; packet traces and results compared with the model'),
    'assumptions': ['Linux SCM_MAX_FD = 253 and silent truncation of descriptors that do not fit the receiver control buffer (kernel model)'],
    'level_text': ('Kernel-checked: a message is refused iff its descriptors (plus the dedicated socket when fragmented) exceed MAX_FDS_IN_CMSG, a refused message '
                   'transmits nothing, an accepted one delivers every attachment in order with the right kind; thresholds are regenerated from the Rust source; '
                   'real send/recv traced for 0..300 attachments x 5 data shapes'),
    'level_note': 'Trusted: Lean kernel, translator, harness; kernel SCM_RIGHTS truncation behaviour is modelled and exercised, not proved',
}


def router_scen(nseq_q, nseq_t, nrace_q, nrace_t):
    def f(tier, seed):
        th = tier == 'thorough'
        ns, nr = (nseq_t, nrace_t) if th else (nseq_q, nrace_q)
        out = [{'args': ['router', '--mode', 'seq', '--seed', str(seed + k), '--n', str(ns // 4)]} for k in range(4)]
        out += [{'args': ['router', '--mode', 'race', '--seed', str(seed + 10 + k), '--n', str(nr // 4)]} for k in range(4)]
        out += [{'args': ['router', '--mode', 'burst', '--seed', str(seed + 20 + k), '--n', str(120 if th else 40)]} for k in range(2)]
        out += [{'args': ['router', '--mode', 'selfwake', '--seed', str(seed + 30), '--n', str(12 if th else 3)]}]
        return out
    return f


def search_router(run):
    for k in range(4):
        for mode in ('race', 'seq'):
            rc, cases, err = vh(['router', '--mode', mode, '--seed', str(900 + k), '--n', '300'], timeout=1200)
            bad = [c for c in cases if c.get('oracle')]
            if bad:
                return {'implementation': bad[0], 'replay_cmd': f'harness/target-default/debug/vh router --mode {mode} --seed {900 + k} --n 300'}
    return None


ROUTER_COMMON = {
    'search': search_router,
    'assumptions': ['the event stream handed to the router satisfies the receiver-set contract (C06)',
                    'the proxy mutex linearises add_route/shutdown calls; crossbeam channels are FIFO'],
}
PROPS['C17'] = dict(ROUTER_COMMON, **{
    'modules': ['IpcModel.Props.C17'],
    'theorems': ['C17.C17_stopped_shutdown', 'C17.C17_stopped_proxy_drop', 'C17.C17_no_panic', 'C17.C17_late', 'C17.C17_idempotent',
                 'C17.C17_shutdown_sequential', 'Router.run_stopped', 'C17.C17_sys_inv', 'C17.C17_returns_stopped', 'C17.C17_stopped_forever',
                 'C17.C17_no_deadlock', 'C17.C17_wake_channel_bounded', 'RSys.inv_step', 'RSys.no_stuck', 'RSys.winv_step', 'C17.C17_shape', 'C17.C17_code_variant'],
    'scenarios': router_scen(600, 8000, 240, 4000),
    'rule': ('seq: seeded client scripts of 3..14 operations {add_route, send, drop sender, shutdown, drop proxy} on a fresh RouterProxy with recording callbacks and '
             'drop guards, quiescence after every step, per-route logs compared with the model; race: 0..8 routes (one callback may re-enter add_route on the router '
             'thread), traffic thread, 0..2 registering threads, 1..4 concurrent shutdown() callers or a proxy drop, 10 s watchdog, panic hook; '
             'burst: 16..40 routes (each with a message queued before registration) registered back to back on a fresh router while a second thread registers one more at a swept '
             'delay of 0..600 us, then no further registration, 15 ms of silence, one more message per route: every route must see both messages in order within 3 s and drop '
             'its callback on disconnection; selfwake: 2..3 routes with 180..260 queued messages each whose callbacks register a route per message (360..780 registrations made '
             'on the router thread within one select batch): all callbacks must run and shutdown() must return within 5 s; '
             'non-trivial = traffic plus a stop/closure (seq) / every race and burst case; distinct = distinct script or race configuration+log length'),
    'explanation': ('router thread as a pure event processor: stop theorems (no handler left, drops before the ack, nothing afterwards), no panic under the C06 contract, '
                    'late routes refused; closed system (mutex, threads, re-entrant callbacks) as a small-step model: returns-only-when-stopped and no-stuck-state proved'),
    'level_text': ('Kernel-checked for every router state and event continuation: Shutdown / proxy drop leave no handler, log one drop per handler before the '
                   'acknowledgement and make every later event a no-op; no panic on contract-respecting streams; routes offered late never reach the router; and, over all '
                   'interleavings of the closed system (client threads calling add_route/shutdown concurrently, proxy mutex, message queue, wake-ups, router thread, callbacks '
                   're-entering add_route): every shutdown() call returns only when the router has stopped and holds no callback, the stop is for good, and no reachable state '
                   'with an unfinished call is stuck (the pre-fix variant has a reachable deadlock); real routers exercised by seq/race/burst scenarios'),
    'level_note': 'Trusted: Lean kernel, harness; Router::run and the proxy are hand-modelled (tied by per-route log equality on seeded scripts and by the race scenarios); scheduler fairness assumed',
})
PROPS['C07'] = dict(ROUTER_COMMON, **{
    'modules': ['IpcModel.Props.C07'],
    'theorems': ['C07.C07_dispatch', 'C07.C07_dispatch_partial_msg', 'C07.C07_dispatch_partial_closed', 'C07.C07_keys', 'C07.C07_fresh', 'Router.step_fresh',
                 'Router.dispatch_run', 'Router.run_gone', 'C07.C07_shape', 'C07.C07_code_variant', 'C07.C07_undecodable_isolated'],
    'scenarios': (lambda a: (lambda tier, seed: a(tier, seed) + [{'build': 'force-inprocess', 'args': ['router', '--mode', 'seq', '--seed', str(seed + 50), '--n', str(2000 if tier == 'thorough' else 150)]}]))(router_scen(800, 8000, 160, 3000)),
    'builds': ['default', 'force-inprocess'],
    'rule': PROPS['C17']['rule'] + '; the sequential router scripts also run on the in-process transport (its receiver set is different code)',
    'explanation': ('one-step dispatch theorems (message -> exactly the registered handler, once; closure -> exactly that handler dropped; fresh ids) plus the freshness '
                    'invariant over all runs; per-route logs of the real router compared with the model; per-route order and single drop checked under concurrency'),
    'level_text': ('Kernel-checked for every event stream that does not stop the router: the effects concerning a route are exactly one invocation per message reported for its '
                   'id, in order, then one drop iff its closure was reported, and nothing else touches it (end-to-end theorem C07_dispatch, with one-step theorems and the '
                   'id-freshness invariant); real RouterProxy compared with the model on seeded scripts and checked for per-route order, exactly-once and single drop under '
                   'concurrent registration and traffic'),
    'level_note': 'Trusted: Lean kernel, harness; relies on C06 for the event stream; crossbeam-forwarding routes are a callback route whose handler forwards (same dispatch path)',
})


def timed_scen_late(builds, nq, nt):
    return lambda tier, seed: timed_scen(builds, nq, nt)(tier, seed)


def world_scen_late(builds, nq, nt):
    return lambda tier, seed: world_scen(builds, nq, nt)(tier, seed)


def sched_scen(nq, nt):
    def f(tier, seed):
        n = nt if tier == 'thorough' else nq
        return [{'args': ['sched', '--sys', str(sz), '--seed', str(seed + k), '--n', str(n // 4), '--tier', tier]}
                for k, sz in enumerate([4608, 4608, 8192, 4608])]
    return f


def search_sched(run):
    for k in range(4):
        rc, cases, err = vh(['sched', '--sys', '4608', '--seed', str(700 + k), '--n', '400'], timeout=1200)
        bad = [c for c in cases if c.get('oracle')]
        if bad:
            return {'implementation': bad[0], 'replay_cmd': f'harness/target-default/debug/vh sched --sys 4608 --seed {700 + k} --n 400'}
    return None


IM_THEOREMS = ['IM.delivery_safe', 'IM.fifo_consumption', 'IM.happened_before', 'IM.sinv_step', 'IM.oinv_step',
               'IM.fs_is_gen', 'IM.ffs_is_gen', 'IM.downsize_is_gen', 'IM.endPos_is_gen', 'IM.single_is_gen', 'IM.want_is_gen']
PROPS['C02'] = {
    'modules': ['IpcModel.Props.C02'],
    'theorems': ['C02.C02_whole', 'C02.C02_once_ordered', 'C02.C02_ok_in_order', 'C02.C02_hb', 'C02.C02_whole_with_attachments', 'C02.C02_shape_followups_blocking', 'C02.C02_signal_transparent', 'RecvSig.loop_retry', 'RecvSig.loop_norestore_corrupt'] + IM_THEOREMS,
    'scenarios': sched_scen(480, 12000),
    'search': search_sched,
    'rule': ('1..3 real sender threads x 1..2 messages each (sizes around the packet boundaries, 1..4 packets) and a real receiver thread, every sendmsg/send/'
             'recvmsg/recv granted one at a time by a seeded controller (gate in the libc interposer), ENOBUFS / fatal errors injected on half of the cases; the '
             'executed schedule is replayed in the model; non-trivial = more than one sender or injected faults; distinct = distinct executed schedule'),
    'explanation': ('safety (whole, never mixed, delivered => Ok send, discarded => failed send), exactly-once FIFO consumption and happened-before order proved for '
                    'every schedule, any number of threads/messages/sizes; packet-capacity functions bridged to the generated code; real threads replayed step by step'),
    'assumptions': ['each message uses a fresh dedicated socket whose receiving end travels only in that message (checked on traces in C01/C13)',
                    'kernel: per-socket FIFO, atomic packets', 'progress/liveness of the receiver is not part of the theorems (safety only)'],
    'level_text': ('Kernel-checked for all schedules, thread counts, message counts and sizes (sys >= 1000): no message is ever delivered corrupt or mixed, delivered '
                   '=> complete and its send returned Ok, Ok sends are in the first-packet order which is consumed exactly once in order, and a send that returned '
                   'before another began precedes it; the model is replayed against real gated threads of the crate'),
    'level_note': ('Trusted: Lean kernel, harness gate/interposer, kernel FIFO+atomicity; sender/receiver step functions hand-modelled (tied by schedule replay) with arithmetic '
                   'bridged to generated definitions; the interleaving model carries payload ranges; attachments are a second layer (IM.att_run: the receiver-side events of every execution fed to the '
                   'attachment-vector machine of recv in the regenerated variant return each delivered message\'s own descriptors), exercised on the real crate by the crash scenario'),
}
PROPS['C12'] = {
    'modules': ['IpcModel.Props.C12'],
    'theorems': ['C12.C12_intact', 'C12.C12_no_wait_on_dead', 'C12.C12_truncated_not_closed', 'C12.C12_own_attachments', 'C12.C12_attachments_all_schedules', 'C12.C12_sigchld_transparent', 'IM.att_run'] + IM_THEOREMS,
    'scenarios': sched_scen(480, 12000),
    'search': search_sched,
    'rule': PROPS['C02']['rule'] + '; for C12 the injected fatal errors (x) abort a send at every packet position with other senders surviving',
    'explanation': ('crash/fatal-error actions are part of the all-schedules model: intact delivery, atomicity of the interrupted message and "receiver never waits on a dead '
                    'dedicated socket" are proved; the repaired recv (truncated message discarded, not reported as closure) is a regenerated shape fact; '
                    'real threads with aborted sends replayed; recv() must never report disconnection while a sender handle exists'),
    'assumptions': PROPS['C02']['assumptions'] + ['process death is modelled as closing all the sender\'s descriptors between two system calls'],
    'level_text': ('Kernel-checked for all schedules with sender deaths between any two system calls: completed sends are delivered intact, the interrupted message is '
                   'delivered whole or discarded, never shortened/mixed, the receiver is never stuck on a dead dedicated socket; real aborted sends replayed in the model '
                   'and checked for false disconnection'),
    'level_note': 'Trusted: as C02; crashes of a real separate process are exercised by the crash scenario (process kill before system call k), select()/router observers by the harness only',
    'claimed': False,
}


def crash_scen(tier, seed):
    shapes = range(7) if tier == 'thorough' else range(3)
    return [{'args': ['crash', '--shape', str(i), '--tier', tier]} for i in shapes]


# delivery must not depend on which receive call is used: single-threaded scripts with recv / try_recv / try_recv_timeout (timed) and
# handle-carrying programs (world) are part of C02 as well
PROPS['C02']['scenarios'] = (lambda *fs: (lambda tier, seed: [x for f in fs for x in f(tier, seed)]))(sched_scen(480, 12000), timed_scen_late(['default'], 120, 3000), world_scen_late(['default'], 100, 2000),
                             lambda tier, seed: [{'args': ['set', '--seed', str(seed + 7), '--n', str(600 if tier == 'thorough' else 40), '--tier', tier]}],
                             lambda tier, seed: [{'args': ['eofrace', '--tier', tier]}],
                             lambda tier, seed: [{'args': ['sigrecv', '--tier', tier]}],
                             lambda tier, seed: [{'args': ['stress', '--seed', str(seed + k), '--n', str(8000 if tier == 'thorough' else 600), '--tier', tier]} for k in range(2)])
PROPS['C02']['rule'] += ('; sigrecv: 2/3/5-fragment messages (thorough: up to 9) whose follow-up recv() calls are answered EINTR (single, double, every pattern in thorough) by the interposer, through recv / try_recv / a receiver set with a second busy member: every message once, whole, in order, no error; plus timed scripts (every queued message must be returned, in order, by whichever of recv / try_recv / try_recv_timeout is issued, also after the last '
                         'sender is gone), ungated stress rounds (1..6 sender threads on clones, mixed sizes, handles dropped at once; recv / spinning try_recv / try_recv_timeout / select; per-sender order, exactly-once, disconnection last), '
                         'eofrace (message then immediate drop vs a polling receiver), world programs compared with the specification, and receiver-set scripts (delivery through select: per-member order and exactly-once, incl. '
                         'many members ready at once and one batch of several MiB, then silence)')
# a sender that dies raises SIGCHLD in its parent: if the parent is the receiver and is reassembling a survivor's message, its read is cut short by the signal (sigrecv)
PROPS['C12']['scenarios'] = (lambda old: (lambda tier, seed: old(tier, seed) + crash_scen(tier, seed) + [{'args': ['sigrecv', '--tier', tier]}]))(sched_scen(240, 6000))
PROPS['C12']['rule'] += ('; crash: a spawned sender process is killed by its interposer immediately before counted system call k (socketpair, every sendmsg/send, every '
                         'close) of one send, for every k, for shapes of 1..6 packets, with/without an attachment, with 0 or 1 surviving sender handle in another process, '
                         'observed by blocking recv, try_recv polling and a receiver set; the crash point is replayed in the model')
PROPS['C12']['claimed'] = True


def set_scen(nq, nt):
    def f(tier, seed):
        n = nt if tier == 'thorough' else nq
        return [{'args': ['set', '--seed', str(seed + k), '--n', str(n // 4), '--tier', tier]} for k in range(4)]
    return f


def search_set(run):
    for k in range(3):
        rc, cases, err = vh(['set', '--seed', str(300 + k), '--n', '1500'], timeout=1200)
        bad = [c for c in cases if c.get('oracle')]
        if bad or rc != 0:
            return {'implementation': bad[0] if bad else {'exit': rc, 'stderr': err[-800:]}, 'replay_cmd': f'harness/target-default/debug/vh set --seed {300 + k} --n 1500'}
    return None


PROPS['C06'] = {
    'modules': ['IpcModel.Props.C06'],
    'theorems': ['C06.C06_no_lost_wakeup', 'C06.C06_init', 'C06.C06_select_enabled', 'C06.C06_once_ordered', 'C06.C06_inv2_init', 'C06.C06_inv2_fresh',
                 'C06.C06_inv2_step', 'C06.C06_cap_pos', 'RSetP.inv_step', 'RSetP.acct_step', 'RSetP.acct_run', 'C06.C06_shape'],
    'scenarios': (lambda a: (lambda tier, seed: a(tier, seed) + [{'args': ['crash', '--shape', str(i), '--tier', tier, '--observer', 'select']}
                                                       for i in ((1, 2, 4, 5) if tier == 'thorough' else (1, 2))]
                                                      + [{'args': ['eofrace', '--tier', tier]}]
                                                      + [{'args': ['sigrecv', '--tier', tier]}]
                                                      + [{'build': 'force-inprocess', 'args': ['set', '--seed', str(seed + 40), '--n', str(2000 if tier == 'thorough' else 150), '--tier', tier]}]))(set_scen(800, 12000)),
    'builds': ['default', 'force-inprocess'],
    'search': search_set,
    'rule': ('seeded scripts of 6..35 operations {create channel, add to set, send small / multi-packet, drop sender, select (issued only when something is pending), '
             'EINTR injected into every 4th wait} over up to 6 members (every 5th case up to 30, so that more than 10 are ready at once), then selects until nothing is '
             'pending; per-member event sequences and ids compared with the model; crash --observer select: a member whose sender process is killed before every counted '
             'system call of a 1..3-packet send, with 0 or 1 surviving sender: the closure (or the survivor\'s message) must still be reported; '
             'non-trivial = more than one select / a crashed sender; distinct = distinct script'),
    'explanation': ('no-lost-wake-up invariant proved for all interleavings and all cap values; select enabled whenever something is pending; the real set compared with '
                    'the model per member (exactly once, order, closed last) on seeded scripts incl. >10 ready members, traffic queued before add, EINTR'),
    'assumptions': ['epoll edge-triggered ready list modelled as: append on arrival/closure/registration-while-ready unless present; at most cap tokens per wait',
                    'member ids are pairwise distinct (counter in the real set; checked by the harness)'],
    'level_text': ('Kernel-checked for every execution (any members, traffic, interleaving of sender threads and the selecting thread, any events-buffer size): no lost wake-up '
                   '(a pending registered member is always in the ready list or in the batch being drained), hence select is enabled whenever a message or closure is pending; '
                   'and per member the reported events are exactly its messages, once each, in send order, followed by one closure only after all of them and only when no '
                   'sender exists (C06_once_ordered); the real set is compared with the model per member on seeded scripts and with crashed sender processes'),
    'level_note': 'Trusted: Lean kernel, harness; epoll ready-list semantics modelled; select loop hand-modelled and tied by per-member event sequences',
}


def world_scen(builds, nq, nt):
    def f(tier, seed):
        n = nt if tier == 'thorough' else nq
        out = []
        for b in builds:
            for k in range(2):
                out.append({'build': b, 'args': ['world', '--seed', str(seed + k), '--n', str(n // 2), '--tier', tier]})
        return out
    return f


def res_scen(nq, nt):
    def f(tier, seed):
        n = nt if tier == 'thorough' else nq
        return [{'args': ['res', '--seed', str(seed + k), '--n', str(n // 4), '--tier', tier]} for k in range(4)]
    return f


def plus(*fs):
    return lambda tier, seed: [x for f in fs for x in f(tier, seed)]


def bytes_scen(builds, nq, nt):
    def f(tier, seed):
        n = nt if tier == 'thorough' else nq
        return [{'build': b, 'args': ['bytesapi', '--seed', str(seed), '--n', str(n), '--tier', tier]} for b in builds]
    return f


def search_world(run):
    for b in run.cfg.get('builds', ['default']):
        for k in range(3):
            rc, cases, err = vh(['world', '--seed', str(40 + k), '--n', '600'], build=b, timeout=1200)
            bad = [c for c in cases if c.get('oracle')]
            if bad or rc != 0:
                return {'implementation': bad[0] if bad else {'exit': rc, 'stderr': err[-800:]},
                        'replay_cmd': f'harness/target-{b}/debug/vh world --seed {40 + k} --n 600'}
            if os.path.exists(DRIVER):
                for c in cases:
                    m = driver(c['req'])
                    if m != c['impl']:
                        return {'implementation_vs_model': {'case': c['id'], 'requests': c['req'], 'impl': c['impl'], 'model': m},
                                'replay_cmd': f'harness/target-{b}/debug/vh world --seed {40 + k} --n 600'}
    return None


PROPS['C11'] = {
    'modules': ['IpcModel.Props.C11'],
    'theorems': ['C11.C11_own', 'C11.C11_restore', 'C11.C11_close_once', 'Ledger.inv_step', 'Ledger.roots_coincide', 'C11.C11_shape', 'C11.C11_set_add_never_orphans'],
    'scenarios': plus(world_scen(['default'], 300, 6000), res_scen(400, 8000),
                      lambda tier, seed: [{'build': 'memfd', 'args': ['res', '--seed', str(seed + 5), '--n', str(2000 if tier == 'thorough' else 150), '--tier', tier]}],
                      # descriptors that arrived with a message whose sender died mid-send (discarded by the receiver) must be closed too
                      lambda tier, seed: [{'args': ['crash', '--shape', str(i), '--tier', tier]} for i in ((1, 2, 5) if tier == 'thorough' else (1,))]),
    'builds': ['default', 'memfd'],
    'search': search_world,
    'rule': ('world: seeded single-threaded programs of ~40 public-API operations over up to 6 channels (create, clone, drop, send small/multi-packet with embedded senders / '
             'moved receivers / regions, the three receive calls, drop receiver with backlog): the number of open library descriptors after every step is compared with '
             'the ledger model, and the descriptor table / shared mappings after the program with the initial ones; res: failing connects, one-shot servers (unused, used with '
             'the client gone before accept, under an over-long TMPDIR), regions of 12 awkward lengths cloned 0..3 times and sent, receiver sets dropped with members, sends to '
             'closed receivers, a spawned child listing its inherited descriptors; close-on-exec checked on every new descriptor, interposer ledger checked for failing or foreign '
             'close() and mismatched munmap; every case is non-trivial; distinct = distinct program / operation list'),
    'explanation': ('ownership invariant, restore (no leak) and close-once proved for all histories of install/clone/drop; every seeded API program is mapped to such a history and '
                    'its descriptor count compared after each step; error paths, close-on-exec, mappings and temp files are covered by the res oracle'),
    'assumptions': ['descriptor numbers are modelled as never reused (creation-order ids); the mapping from API operations to ledger operations is part of the harness',
                    'close-on-exec, mappings, temp files and error paths of connect/bind/listen are oracle-checked, not modelled'],
    'level_text': ('Kernel-checked for all histories: every open descriptor is owned by exactly one live handle or Arc group, all handles dropped => every descriptor closed, no '
                   'descriptor is closed twice or without having been owned; seeded API programs are replayed in the ledger model step by step (descriptor counts), and leaks, '
                   'inheritance, mappings and temp files are checked on the real process'),
    'level_note': 'Trusted: Lean kernel, harness (/proc/self/fd, interposer ledger); kernel in-flight descriptor semantics; error paths and FD_CLOEXEC are observed, not proved',
}
PROPS['C03'] = {
    'modules': ['IpcModel.Props.C03'],
    'theorems': ['C03.C03_roots', 'C03.C03_iff', 'C03.C03_held_sender_connected', 'Ledger.inv_run', 'C03.C03_refine', 'C03.C03_unix_iff', 'C03.C03_eof_confirmed', 'C03.C03_inproc', 'Refine.sim_step',
                 'Reach.reachG_iff'],
    'builds': ['default', 'force-inprocess'],
    'scenarios': plus(world_scen(['default', 'force-inprocess'], 400, 8000),
                      lambda tier, seed: [{'args': ['crash', '--shape', str(i), '--tier', tier, '--only-stale', '1']} for i in ((1, 2, 4, 5) if tier == 'thorough' else (1, 2))],
                      lambda tier, seed: [{'build': b, 'args': ['timed', '--seed', str(seed + 2), '--n', str(1500 if tier == 'thorough' else 60), '--tier', tier]} for b in ('default', 'force-inprocess')],
                      lambda tier, seed: [{'args': ['eofrace', '--tier', tier]}],
                      # res-fd0: handles that live on descriptor 0 are closed like any other (disconnection follows); plus a few resource histories
                      lambda tier, seed: [{'args': ['res', '--seed', str(seed + 9), '--n', '20', '--tier', 'quick']}]),
    'search': search_world,
    'rule': ('eofrace: ~200 000 channels whose sender queues one message and drops its handle at once while the receiver spins on try_recv / select — the message must be delivered '
             'before disconnection is reported (the kernel\'s end-of-file answer can overtake it; D16); timed scripts on the OS and in-process transports (the last sender dropped by a second thread while recv / try_recv_timeout is blocked: it must wake up with disconnected); '
             'crash --only-stale: a channel whose last sender handle travelled inside a multi-packet message whose sending process was killed before call k (every k) must report '
             'disconnection to a blocking recv() within 4 s once the truncated message is discarded, while the owner of the carrying channel is blocked in recv(); '
             'seeded histories of clone / embed-in-message / extract / drop-handle / drop-carrying-receiver over an acyclic family of up to 6 channels (handles are embedded only '
             'in lower-numbered channels), each receive issued as recv, try_recv or try_recv_timeout, followed by a final sweep of try_recv on every held receiver; results '
             '(message / empty / disconnected / send error) compared with Ideal.run and, on the OS build, with the descriptor-level model Unix.run (which must also find the program valid); non-trivial = at least one message carrying handles was received; distinct = distinct program'),
    'explanation': ('roots_coincide (open descriptor <=> owned by a live handle) proved for all histories; the specification Ideal (disconnected <=> empty queue and no sender handle '
                    'reachable) stated and its receive clauses proved; the refinement Unix (descriptor level: close-only, kernel reachability) => Ideal (explicit destruction cascade) '
                    'proved for all valid programs (C03_refine); the real OS transport is tied to Unix.run and the in-process transport to Ideal.run by executing seeded histories'),
    'assumptions': ['kernel liveness of a socket = reachability from descriptor tables through queued SCM_RIGHTS packets (Linux)', 'acyclic channel families only',
                    'wake-up of a blocked receive on last drop is exercised by the race in the sched/crash scenarios of C12, not here'],
    'level_text': ('Kernel-checked: after any history the open descriptors are exactly those owned by live handles (the roots of kernel liveness and of specification existence '
                   'coincide), the specification answers disconnected iff the queue is empty and no sender handle is reachable, and the descriptor-level model (handles = '
                   'descriptors, drop = close, existence = kernel reachability) refines the specification for every valid program (simulation relation proved, Unix => Ideal); '
                   'the real crate is tied to the descriptor-level model by differential execution of seeded histories (OS build vs Unix.run, in-process build vs Ideal.run)'),
    'level_note': ('Trusted: Lean kernel, harness; Linux reachability semantics for in-flight descriptors (immediate for acyclic families - the property\'s quantifier; for cycles the '
                   'kernel collector is asynchronous and nothing is claimed about timing); multi-threaded wake-up of a blocked receive is exercised, not modelled'),
}
PROPS['C09'] = {
    'modules': ['IpcModel.Props.C09'],
    'theorems': ['C09.C09_no_hang', 'C09.C09_inv_step', 'C09.C09_error', 'C09.C09_transit', 'C09.C09_code_variant', 'C09.C09_no_hang_code', 'C09.C09_inproc_never_waits'],
    'builds': ['default', 'force-inprocess'],
    'scenarios': plus(world_scen(['default', 'force-inprocess'], 300, 6000), lambda tier, seed: [{'args': ['vanish', '--tier', tier], 'timeout': 600}],
                      lambda tier, seed: [{'args': ['crash', '--shape', str(i), '--tier', tier, '--only-stale', '1']} for i in ((1, 2, 4, 5, 6) if tier == 'thorough' else (1, 2))]),
    'search': search_world,
    'rule': ('crash --only-stale: a receiver that travelled only inside a multi-packet message whose sending process was killed before call k (every k) exists nowhere once the '
             'truncated message is discarded, even while the owner of the carrying channel is blocked in recv(): sends to it must start failing within 3 s; '
             'vanish: receiver dropped before the send (sizes from 10 bytes to 4 MiB, with and without attachments), dropped 0/5/40 ms into a 4 MiB send that is blocked on full '
             'socket buffers (10 s watchdog), and a child process with SIGPIPE at its default disposition; world: sends to channels whose receiver is dropped or merely in '
             'transit inside an undelivered message, compared with Ideal.run; every case non-trivial'),
    'explanation': ('no-hang proved on a reference model of the dedicated socket (who keeps its receiving end alive); error / in-transit clauses proved on the specification; the real '
                    'crate is exercised at every position and compared with the specification'),
    'assumptions': ['kernel: send to a released peer fails with EPIPE/ECONNRESET and wakes a blocked sender; MSG_NOSIGNAL is not used, the Rust runtime ignores SIGPIPE, a child with SIG_DFL is tested'],
    'level_text': ('Kernel-checked: in the repaired protocol no reachable state has a sender waiting on a dedicated socket that only it keeps alive (the pre-fix variant has a reachable '
                   'stuck state); the specification makes sends fail iff the receiving end exists nowhere and succeed while it is in transit; real sends to vanished receivers '
                   'checked for error / no hang / no signal'),
    'level_note': 'Trusted: Lean kernel, translator, harness; kernel wake-up of a blocked sender; the NoHang model is a hand-written abstraction of send() whose variant flag is read off the source (C09_code_variant) and which is otherwise tied by the vanish scenario',
}
PROPS['C19'] = {
    'modules': ['IpcModel.Props.C19', 'IpcModel.Props.C03', 'IpcModel.Props.C09'],
    'theorems': ['C19.C19_shape', 'C19.C19_inproc', 'C19.C19_inproc_rendezvous', 'C19.C19_inproc_set_ids', 'InprocSet.ids_distinct', 'C19.C19_rendezvous_same_answers', 'RegRefine.rel_step', 'C19.C19_refine', 'C19.C19_step', 'C19.C19_same_world', 'C19.C19_alive_is_reachability', 'C19.C19_receivers_unique', 'Refine.rel_kill',
                 'Refine.dropHandles_char', 'Reach.reachG_iff', 'C03.C03_iff', 'C09.C09_error', 'C09.C09_transit'],
    'builds': ['default', 'memfd', 'force-inprocess'],
    'scenarios': (lambda a: (lambda tier, seed: a(tier, seed) + [{'build': b, 'args': ['set', '--seed', str(seed + k), '--n', str((3000 if tier == 'thorough' else 200) // 2), '--tier', tier]}
                                                       for b in ('default', 'memfd') for k in range(2)]
                                                       + bytes_scen(['default', 'memfd', 'force-inprocess'], 120, 2000)(tier, seed)
                                                       + [{'build': 'force-inprocess', 'args': ['set', '--seed', str(seed + 41), '--n', str(2000 if tier == 'thorough' else 150), '--tier', tier]},
                                                          {'build': 'force-inprocess', 'args': ['router', '--mode', 'seq', '--seed', str(seed + 51), '--n', str(1500 if tier == 'thorough' else 100)]},
                                                          {'build': 'force-inprocess', 'args': ['oneshotip', '--seed', str(seed + 3), '--n', str(600 if tier == 'thorough' else 60), '--tier', tier]}]))(world_scen(['default', 'memfd', 'force-inprocess'], 300, 6000)),
    'search': search_world,
    'rule': ('receiver-set scripts and sequential router scripts also on the in-process transport (per-member / per-route sequences compared with the same models; how many events one '
             'select call batches is free there); bytesapi: the byte-channel API (raw payloads of 0 .. 2 packets+5 bytes, recv / try_recv, clones, disconnection, byte-channel endpoints embedded in typed '
             'messages with a backlog) as seeded programs on the three builds, compared with both models; receiver-set scripts (incl. bursts of more than 10 ready members and long per-member backlogs) on the OS and memfd builds compared with the set model; '
             'the same seeded single-threaded program (same seed => same operation choices as long as results agree) of ~40 operations over up to 6 channels is executed on the '
             'OS transport, the memfd build and the in-process transport; each result sequence is compared with Ideal.run (hence pairwise) and, on the OS and memfd builds, with the '
             'descriptor-level model Unix.run, which must also report the program valid (the hypothesis of C19_refine); non-trivial = a message with handles was received; '
             'distinct = distinct (build, program)'),
    'explanation': ('refinement theorem between the two executable readings (Unix: descriptors, close-only, kernel reachability; Ideal: explicit destruction cascade = what the '
                    'in-process transport does) for all valid programs; each real build is tied to its reading by running the same seeded programs'),
    'assumptions': ['programs are restricted to operations whose outcome the ideal model defines; receiver sets and one-shot servers are compared in C06/C08 scenarios, not here',
                    'kernel: a socket exists iff reachable from a descriptor table through queued SCM_RIGHTS packets (immediate for acyclic families)'],
    'level_text': ('Kernel-checked: for every valid program the descriptor-level reading (what the OS and memfd transports do) and the specification (what the in-process transport '
                   'does: ideal unbounded FIFO with handle-carrying messages, existence = reachability, explicit destruction cascade) return the same result for every operation '
                   '(C19_refine, by a simulation relation over all states); receiver handles stay unique; the reachability iteration is a true fixed point. The three real builds '
                   'are tied to the two readings by executing the same seeded programs (differential)'),
    'level_note': ('Trusted: Lean kernel; the harness; that the OS transport is the descriptor-level reading and the in-process transport the cascade reading is checked by '
                   'differential execution on seeded programs; of the in-process transport the error arms of the three receive flavours, the conversions to the public errors and the rendezvous registry operations are regenerated from the source (GenInproc) and proved to give the queue\'s / the OS rendezvous\' answers, crossbeam\'s queue itself is trusted; kernel reachability semantics'),
    'technique': 'Lean 4 refinement theorem (descriptor-level model => ideal FIFO specification) + differential execution of the three builds against the two executable models',
}


def timed_scen(builds, nq, nt):
    def f(tier, seed):
        n = nt if tier == 'thorough' else nq
        out = []
        for b in builds:
            for k in range(2):
                out.append({'build': b, 'args': ['timed', '--seed', str(seed + k), '--n', str(n // 2), '--tier', tier]})
        return out
    return f


def search_timed(run):
    for b in run.cfg.get('builds', ['default']):
        for k in range(3):
            rc, cases, err = vh(['timed', '--seed', str(60 + k), '--n', '150'], build=b, timeout=1200)
            bad = [c for c in cases if c.get('oracle')]
            if bad or rc != 0:
                return {'implementation': bad[0] if bad else {'exit': rc, 'stderr': err[-800:]},
                        'replay_cmd': f'harness/target-{b}/debug/vh timed --seed {60 + k} --n 150'}
    return None


PROPS['C10'] = {
    'modules': ['IpcModel.Props.C10'],
    'theorems': ['C10.C10_flag', 'C10.C10_try', 'C10.C10_timeout', 'C10.C10_no_poison', 'C10.C10_no_miss', 'C10.C10_wait', 'C10.C10_shape',
                 'Timed.trace_shape', 'C10.C10_no_early_eof', 'C10.C10_trace_shape', 'C10.C10_inproc'],
    'builds': ['default', 'force-inprocess'],
    'scenarios': (lambda a: (lambda tier, seed: a(tier, seed) + [{'args': ['crash', '--shape', str(i), '--tier', tier, '--observer', 'timed']}
                                                       for i in ((1, 2, 4) if tier == 'thorough' else (1,))]))(timed_scen(['default', 'force-inprocess'], 120, 4000)),
    'search': search_timed,
    'rule': ('seeded single-threaded scripts of 4..14 operations {send small / multi-packet (1..4 packets), clone sender, drop sender, try_recv, '
             'try_recv_timeout(d) with d in {0, 1us, 300us, 999us, 1ms, 1.5ms, 3ms, 12ms}, blocking recv when it cannot block}, then a drain, then an '
             'epilogue with a second thread acting 30 ms later: blocking recv must block until the message is sent (no poisoning), or try_recv_timeout(3 s) '
             'must return early with a small message / a multi-packet message / the disconnection; OS build: the fcntl/poll/recvmsg calls on the channel '
             'descriptor are compared with Timed.call, O_NONBLOCK is read back after every call; in-process build: results only; non-trivial = at least two '
             'receive calls; distinct = distinct script; crash --observer timed: try_recv_timeout(20 ms) polled while a sender process is killed before every counted call '
             'of a multi-packet send (a truncated message with nothing complete behind it; the survivor\'s message comes 400 ms later): no call may take longer than 250 ms'),
    'explanation': ('mode/flag logic proved for every queue state, mode, poll answer and call sequence (flag restored, try never waits on the channel socket, '
                    'empty only after a poll time-out, no message lost, later blocking recv blocks); poll unit regenerated from the source; the real crate '
                    'compared call by call, with wall-clock lower/upper bounds and a second thread for the early-return and no-poison clauses'),
    'assumptions': ['poll(2) reports a time-out only if nothing was readable and the peer stayed connected for the whole wait (kernel; lower bound measured)',
                    'a try_recv that finds the first fragment of a message still being sent waits for that sender (by design: follow-ups are read blocking)'],
    'level_text': ('Kernel-checked for every kernel-queue state, mode and call sequence: O_NONBLOCK is clear between calls (so a later blocking recv blocks instead of '
                   'failing), try_recv never waits on the channel socket and returns the head message / empty / disconnected exactly as specified, a timed receive '
                   'reports empty only after a poll time-out of the duration rounded down to milliseconds, no call loses or reorders a message; system-call '
                   'sequences and results of the real crate compared with the model, time bounds and early return checked with a second thread'),
    'level_note': 'Trusted: Lean kernel, translator (flag order, poll unit, event mask), harness; timer accuracy and kernel wake-up during poll are measured, not proved',
}


def stream_scen(nq, nt):
    def f(tier, seed):
        n = nt if tier == 'thorough' else nq
        return [{'build': 'async', 'args': ['stream', '--seed', str(seed + k), '--n', str(n // 4), '--tier', tier]} for k in range(4)]
    return f


def search_stream(run):
    for k in range(3):
        rc, cases, err = vh(['stream', '--seed', str(80 + k), '--n', '150'], build='async', timeout=1200)
        bad = [c for c in cases if c.get('oracle')]
        if bad or rc != 0:
            return {'implementation': bad[0] if bad else {'exit': rc, 'stderr': err[-800:]},
                    'replay_cmd': f'harness/target-async/debug/vh stream --seed {80 + k} --n 150'}
    return None


PROPS['C20'] = {
    'modules': ['IpcModel.Props.C20'],
    'theorems': ['C20.C20_forward', 'C20.C20_registration', 'C20.C20_inv_init', 'C20.C20_inv_step', 'C20.C20_msg_forward', 'C20.C20_isolation',
                 'C20.C20_closed_ends', 'C20.C20_unknown_ignored', 'Async.events_forward', 'Async.drain_spec', 'C20.C20_shape'],
    'builds': ['async'],
    'scenarios': stream_scen(240, 6000),
    'search': search_stream,
    'rule': ('seeded scripts over 1..8 channels (every 7th case 13..32): 0..5 messages queued before to_stream, conversions issued concurrently from 1..4 threads, '
             '0..7 messages afterwards from the original handle and 0..3 from a clone in another thread (a few multi-packet), all sender handles dropped (2/3 of channels, '
             'sometimes before the conversion) or kept; one consumer thread per stream polling by hand with a counting waker and re-polling only after a wake-up; '
             'per-stream yielded sequence and end-of-stream compared with Async.script and with the harness reference; non-trivial = more than one stream or a '
             'Pending that was followed by a wake-up; distinct = distinct script'),
    'explanation': ('routing thread of asynch.rs modelled as a pure processor of select batches plus a closed system of channels and client operations; forwarding, isolation, '
                    'closure and ignored wake-ups proved as one-step theorems; real streams compared per stream with the model'),
    'assumptions': ['futures::mpsc unbounded channels are FIFO, wake the receiving task on send and on drop of the last sender (trusted; exercised by the counting waker)',
                    'the receiver set feeding the routing thread satisfies C06'],
    'level_text': ('Kernel-checked for every history of routing-thread iterations, route offers and arbitrary other traffic: the stream registered for a receiver-set id '
                   'receives exactly that id\'s messages, once, in order, and ends exactly at its closure; no other event touches it; an offered route is registered by the next '
                   'iteration under a fresh id (invariant proved inductive from the initial state); real IpcStreams created from many threads compared per stream with the '
                   'executable model and checked for wake-up of the polling task and end-of-stream iff no sender remains'),
    'level_note': 'Trusted: Lean kernel, harness; futures mpsc and waker delivery, and the receiver-set contract (C06) feeding the routing thread, are assumptions of the theorem',
}


def shm_scen(builds, nq, nt):
    def f(tier, seed):
        n = nt if tier == 'thorough' else nq
        out = []
        for b in builds:
            for k in range(2):
                out.append({'build': b, 'args': ['shm', '--seed', str(seed + k), '--n', str(n // 2), '--tier', tier, '--oracle', '1' if k == 0 else '0'],
                            'timeout': 3000 if tier == 'thorough' else 400})
        return out
    return f


def search_shm(run):
    for b in ('default', 'memfd'):
        for k in range(2):
            rc, cases, err = vh(['shm', '--seed', str(20 + k), '--n', '300'], build=b, timeout=1200)
            bad = [c for c in cases if c.get('oracle')]
            if bad or rc != 0:
                return {'implementation': bad[0] if bad else {'exit': rc, 'stderr': err[-800:]},
                        'replay_cmd': f'harness/target-{b}/debug/vh shm --seed {20 + k} --n 300'}
    return None


PROPS['C05'] = {
    'modules': ['IpcModel.Props.C05'],
    'theorems': ['C05.C05_contents', 'C05.C05_lifetime', 'C05.C05_zero', 'C05.C05_zero_reads_empty', 'C05.C05_order', 'C05.C05_many_in_order', 'C05.C05_lifetime_all', 'C05.C05_many_after_drops', 'C05.C05_send_literal', 'C05.C05_shape',
                 'C05.size_is_length', 'Shm.inv_step', 'Shm.calls_step'],
    'builds': ['default', 'memfd', 'force-inprocess'],
    'scenarios': plus(shm_scen(['default', 'memfd'], 300, 8000), world_scen(['force-inprocess'], 100, 2000),
                      # regions that arrived with a message whose sender died mid-send must not show up in the next message
                      lambda tier, seed: [{'args': ['crash', '--shape', str(i), '--tier', tier]} for i in ((1, 2, 5) if tier == 'thorough' else (1,))]),
    'search': search_shm,
    'rule': ('shm (OS and memfd builds): seeded platform-level histories of 3..12 steps {from_bytes (seeded contents), from_byte, clone, send 1..3 regions in one message and '
             'receive them, drop} with lengths from {0, 1, 2, 7, page-1, page, page+1, 2 pages-1, 2 pages, 2 pages+1, 3 pages+5, 65537} or seeded <= 70000: the interposed '
             'ftruncate/mmap/dup/fstat/munmap/close sequence and every live handle\'s (length, mapped?, contents) are compared with Shm.run; munmap lengths and closes are '
             'checked against the interposer ledger; plus oracle-only cases: regions of 2 MiB+4097, 2 MiB, 5 MiB+1 (thorough: up to 32 MiB) inside small and multi-packet '
             'messages next to an endpoint and a second region, clones of received regions, zero-length regions at the ipc and platform level, and a spawned process that '
             'reads 1..4 regions (up to 3 MB) after the sender dropped its copies and the carrying channel; in-process build: the world programs with regions; '
             'non-trivial = a clone or a transfer; distinct = distinct history'),
    'explanation': ('contents/length/lifetime invariant proved for every history of create/clone/transfer/drop over a kernel model of objects, descriptors and mappings; '
                    'zero length never reaches mmap/munmap; object size regenerated from the source; system-call traces of the real crate compared with the model'),
    'assumptions': ['mmap of a ftruncate-sized object shows the bytes written through another mapping of it (kernel; exercised by the oracle incl. another process)',
                    'descriptor numbers and addresses are modelled as never reused'],
    'level_text': ('Kernel-checked for every history of from_bytes/from_byte/clone/transfer/drop: every live handle reads exactly the bytes and length of the region it stems '
                   'from, dropping any other copy never affects it, zero-length regions never reach mmap/munmap and read as empty; several regions keep their order (descriptor '
                   'order theorem); the system-call sequence and handle states of the real crate are compared with the model, contents checked in clones, after transfers and '
                   'in another process'),
    'level_note': 'Trusted: Lean kernel, translator (object size, zero-length branches), harness; kernel mmap/SCM_RIGHTS semantics modelled; macOS/Windows back ends not covered',
}


PROPS['C18'] = {
    'modules': ['IpcModel.Props.C18'],
    'theorems': ['C18.C18_recv_bounds', 'C18.C18_protocol', 'C18.C18_slices', 'C18.C18_cmsg_writer', 'C18.C18_cmsg_reader', 'C18.C18_shm_pairing',
                 'C18.C18_shm_zero', 'C18.C18_shape', 'C18.C18_unsafe_inventory', 'Bounds.follow_spec', 'Frag.sendLoop_firstFits', 'Frag.recvMsg_shape'],
    'builds': ['default', 'memfd'],
    'scenarios': plus(frag_scen('c18', [4608, 8192], [4608, 8192, 65536, 0]), shm_scen(['default', 'memfd'], 120, 3000),
                      lambda tier, seed: [{'args': ['sigrecv', '--tier', tier]}],  # reassembly interrupted by signals: every byte delivered was written by the transport
                      lambda tier, seed: [{'args': ['crash', '--shape', '1', '--tier', tier]}]),
    'search': search_frag,
    'rule': ('frag c18: lengths {0, 1, 8, 2001, M-1, M, M+1, M+F-1, M+F, M+F+1, M+3F+7, seeded < 8F} (M/F = first/follow-up packet capacity) x attachments '
             '{none, 3 channels + 2 regions, 63 channels} x ENOBUFS patterns over the first 4 (thorough 6) attempts with at most two faults (short follow-up packets) x 2 '
             'spoofed buffer sizes (thorough: 4 incl. the system default): the sizes handed to the kernel by every sendmsg/send/recvmsg/recv (iovec lengths, control-buffer '
             'capacity, follow-up counts) are compared with the model, the returned Vec\'s (capacity, length) with the ghost buffer of Bounds.recv, the payload byte for '
             'byte with seeded random content (an unwritten byte shows as a difference); crash: the message received after a discarded (truncated) one is compared byte for byte as well — the receive buffer is re-used across the discard; shm: region histories incl. zero length, munmap lengths checked against the '
             'mapping ledger; non-trivial = more than one system call; distinct = distinct trace'),
    'explanation': ('ghost-buffer theorem for recv over arbitrary follow-up packet sizes, protocol facts for every packet a send can emit, slice bounds, control-message '
                    'reader/writer bounds and map/unmap pairing proved; the ghost values are observable (sizes in system calls, Vec capacity/length) and compared on real runs'),
    'assumptions': ['the kernel writes at most the bytes it reports and never beyond the iovec / count it was given',
                    'the channel socket carries only first packets of sends (C02 invariant)',
                    'memory safety of the compiled code is not modelled: this is a proof of the index arithmetic the unsafe blocks rely on'],
    'level_text': ('Kernel-checked index arithmetic of the unsafe code: for every buffer size, first packet with its header, announced total and ANY sequence of follow-up packet '
                   'sizes the receive loop never sets a length beyond capacity, never hands the kernel a range outside the allocation and returns exactly the announced length '
                   'with every byte kernel-written; every packet a send can emit (any ENOBUFS pattern) satisfies the protocol facts this needs; slices, control-message space '
                   'and map/unmap lengths in range; zero-length regions never mapped. Ghost values compared with the sizes seen in real system calls and the returned Vec'),
    'level_note': 'Trusted: Lean kernel, translator, harness; NOT a proof of memory safety of the machine code (no model of Rust memory); use-after-free/double-free only via descriptor and mapping ledgers',
}


def chain_scen(builds, nq, nt):
    def f(tier, seed):
        n = nt if tier == 'thorough' else nq
        return [{'build': b, 'args': ['chain', '--seed', str(seed + k), '--n', str(n // 2), '--tier', tier]} for b in builds for k in range(2)]
    return f


def search_chain(run):
    for b in ('default', 'force-inprocess'):
        for k in range(2):
            rc, cases, err = vh(['chain', '--seed', str(30 + k), '--n', '300'], build=b, timeout=1200)
            bad = [c for c in cases if c.get('oracle')]
            if bad or rc != 0:
                return {'implementation': bad[0] if bad else {'exit': rc, 'stderr': err[-800:]},
                        'replay_cmd': f'harness/target-{b}/debug/vh chain --seed {30 + k} --n 300'}
    return search_world(run)


PROPS['C04'] = {
    'modules': ['IpcModel.Props.C04'],
    'theorems': ['C04.C04_roundtrip', 'C04.C04_own', 'C04.C04_fd_order', 'C04.C04_queue_step', 'C04.C04_backlog', 'C04.C04_moved_from',
                 'Ideal.fifo_step', 'Ideal.fifo_run', 'Ideal.run_eq_runFrom', 'Wire.dec_enc'],
    'builds': ['default', 'memfd', 'force-inprocess'],
    'scenarios': plus(chain_scen(['default', 'memfd', 'force-inprocess'], 160, 4000), wire_scen('enc', 800, 12000), world_scen(['default'], 200, 4000),
                      bytes_scen(['default', 'force-inprocess'], 100, 2000),
                      lambda tier, seed: [{'args': ['crash', '--shape', str(i), '--tier', tier]} for i in ((1, 2, 5) if tier == 'thorough' else (1,))],
                      frag_scen('c15', [4608], [4608, 0])),
    'search': search_chain,
    'rule': ('chain: a receiver transferred over 1..5 hops inside carrier messages {0..2 senders before it, the receiver, 0..2 regions (lengths 0, 1, 4095, 4096, 4097, 10000), '
             '0..1 senders after it, padding of 33 bytes or 300 KB (multi-packet)} to the same thread, another thread or a spawned process and back, with 0..3 messages sent to '
             'its channel before, during and after every hop; every received sender is used once, regions compared, the final handle must yield every message ever sent, in '
             'order, and then report empty; the whole history is compared with Ideal.run (OS, memfd and in-process builds); wire enc: seeded typed values with endpoints at '
             'arbitrary positions sent through the real serialiser, bytes/attachment order compared with the model and every received endpoint probed with a nonce; world: '
             'frag c15: 0..300 attachments x 5 data shapes incl. multi-packet — an accepted message must arrive with every endpoint working and in position (the attachment '
             'counts around the control-buffer limit are where acceptance and intact arrival part ways); seeded programs with embedded senders / moved receivers / regions vs Ideal.run; crash: after a message with endpoints whose sender process was killed mid-send, the '
             'next message\'s endpoints must be exactly its own (count and identity probe); non-trivial = at least one hop / a value with an endpoint; distinct = distinct history or value'),
    'explanation': ('round trip of any well-typed value with endpoints (positions, identity, own attachments only), descriptor order through the kernel, and the per-channel FIFO of '
                    'the specification over all programs — moving a receiver any number of times never changes what is queued — are theorems; the transports are compared with '
                    'the specification on transfer chains across threads and processes'),
    'assumptions': ['kernel: a queue belongs to the socket (open file description), not to a descriptor; SCM_RIGHTS preserves it',
                    'the refinement transport -> Ideal is established by differential execution, not proved'],
    'level_text': ('Kernel-checked: any well-typed value decodes from its own encoding to itself with every endpoint and region at its position, consuming exactly its own attachments; '
                   'send hands the OS exactly the value\'s endpoints in traversal order; descriptor lists are split back exactly after the kernel, small or multi-packet; in the '
                   'specification, for every program, received ++ queued = initially queued ++ sent for every channel whose receiver is not destroyed, however often the receiver '
                   'handle travels, and a moved-from handle yields nothing. Real transfer chains over threads/processes, typed values with probes and seeded programs compared with the models'),
    'level_note': 'Trusted: Lean kernel, harness; the link between the transports and the specification is differential (chains, world programs), the kernel\'s queue-follows-socket semantics is modelled',
}


def oneshot_scen(nq, nt):
    def f(tier, seed):
        n = nt if tier == 'thorough' else nq
        return [{'args': ['oneshot', '--seed', str(seed + k), '--n', str(n // 4), '--tier', tier]} for k in range(4)]
    return f


def search_oneshot(run):
    for k in range(3):
        rc, cases, err = vh(['oneshot', '--seed', str(50 + k), '--n', '400'], timeout=1200)
        bad = [c for c in cases if c.get('oracle')]
        if bad or rc != 0:
            return {'implementation': bad[0] if bad else {'exit': rc, 'stderr': err[-800:]},
                    'replay_cmd': f'harness/target-default/debug/vh oneshot --seed {50 + k} --n 400'}
    return None


PROPS['C08'] = {
    'modules': ['IpcModel.Props.C08'],
    'theorems': ['C08.C08_first', 'C08.C08_orders', 'C08.C08_clean_accept', 'C08.C08_clean_drop', 'C08.C08_clean_failed_new', 'C08.C08_distinct', 'C08.C08_shape', 'C08.C08_inproc_registry', 'InprocReg.inv_run', 'C08.C08_accept_survives_signals',
                 'OneShot.conn_step', 'OneShot.names_step'],
    'scenarios': plus(oneshot_scen(600, 12000), lambda tier, seed: [{'build': b, 'args': ['oneshotip', '--seed', str(seed), '--n', str(600 if tier == 'thorough' else 60), '--tier', tier]} for b in ('default', 'force-inprocess')]),
    'builds': ['default', 'force-inprocess'],
    'search': search_oneshot,
    'rule': ('seeded lifecycles of 4..16 operations over up to 3 servers under a private temp root: new (also failing at each step: TMPDIR too long for sun_path, forced '
             'socket/bind/listen failure), connect to live and to retired names, a spawned client process that connects, sends 1..3 messages and exits before accept, client '
             'sends, client exit, accept (when the first connection has sent or gone), drop of an unused server, receives and drop of the returned receiver; results, number of '
             'entries under the temp root, listening and receiver descriptors compared with OneShot.run; the address actually bound (interposed bind) must equal the returned '
             'name; afterwards everything is dropped and the temp root and descriptor table must be as before; finally 3 000 consecutive (thorough 20 000) and 200 simultaneous '
             'server names must be pairwise distinct; non-trivial = an accept or a failing new; distinct = distinct lifecycle'),
    'explanation': ('clean-up on every path, first message + rest in order for every interleaving, distinct names (given fresh directory names) proved on the model; shape facts of '
                    'new/accept regenerated; real lifecycles incl. failing new and an exited client process compared with the model, leftovers listed'),
    'assumptions': ['mkdtemp names are fresh (model: counter); checked on 3 000 + 200 real names', 'the kernel accept queue is FIFO; data sent to a not yet accepted connection is queued on it',
                    'more than 10 pending connections (listen backlog) are not exercised'],
    'level_text': ('Kernel-checked on the model: whenever accept returns or an unused server is dropped its descriptor and file-system entries are gone, a new that fails at any step '
                   'leaves nothing, accept returns the first message of the first connection and the receiver then yields everything else the client sent in order for every '
                   'interleaving (client before/after accept, client already exited), names are pairwise distinct; real lifecycles compared step by step, temp root and descriptor '
                   'table checked, bound address = returned name'),
    'level_note': 'Trusted: Lean kernel, translator (shape of new/accept), harness; file-system and mkdtemp behaviour observed, not modelled; the in-process registry is modelled separately (InprocReg, variant flags regenerated) and compared with the OneShot model by registry scripts on every build; UUID / mkdtemp name uniqueness assumed',
}
