#!/bin/sh
# usage: tools/archive_seed.sh <Cxx> <checks to run...>   -- takes /tmp/seedout/<Cxx>/{patch.diff,seed_cxx.rs,notes.md} and the
# scratch worktree /tmp/wt/<Cxx>; confirms the change there (confirm.txt), runs the named checks against it in /repo (run.txt)
set -u
ID="$1"; shift
L=$(echo "$ID" | tr A-Z a-z)
SD=/verif/seeded/$ID
mkdir -p "$SD"
cp /tmp/seedout/$ID/patch.diff /tmp/seedout/$ID/notes.md "$SD"/ 2>/dev/null
cp /tmp/seedout/$ID/seed_$L.rs "$SD"/
/verif/tools/confirm_seed.sh "$ID" /tmp/wt/$ID "$SD" seed_$L "${SEED_EXTRA:-}"
cat "$SD/confirm.txt"
/verif/tools/seedtest.sh "$SD/patch.diff" "$@" > "$SD/run.txt" 2>&1
cat "$SD/run.txt"
