#!/usr/bin/env python3
"""Rust-subset -> Lean translator for the extraction units of DESIGN.md §2.2.

Reads $VERIF_REPO (default /repo) src/platform/unix/mod.rs, src/router.rs, src/ipc.rs and
writes lean/IpcModel/Gen.lean (only when the content changed, so lake does not rebuild needlessly).

Everything that cannot be found or falls outside the subset makes the translator exit 2 with a
message "translator: ..." -- that is a broken tie, reported by ./check, never skipped.
"""
import os, re, sys

REPO = os.environ.get('VERIF_REPO', '/repo')
HERE = os.path.dirname(os.path.abspath(__file__))
OUT = os.path.join(HERE, '..', 'lean', 'IpcModel', 'Gen.lean')


class TranslateError(Exception):
    pass


def fail(msg):
    raise TranslateError(msg)


def read(rel):
    p = os.path.join(REPO, rel)
    try:
        return open(p).read()
    except OSError as e:
        fail(f"cannot read {p}: {e}")


def strip_comments(s):
    s = re.sub(r'/\*.*?\*/', '', s, flags=re.S)
    return re.sub(r'//[^\n]*', '', s)


def find_block(src, start):
    """src[start] is just after an opening brace; return index just after the matching close."""
    i = start
    depth = 1
    while depth:
        if i >= len(src):
            fail("unbalanced braces")
        c = src[i]
        depth += (c == '{') - (c == '}')
        i += 1
    return i


def find_fn(src, name, which=0):
    ms = list(re.finditer(r'fn\s+' + re.escape(name) + r'\s*(?:<[^>]*>)?\s*\(([^)]*)\)\s*(->\s*([^{]+))?\{', src))
    if len(ms) <= which:
        fail(f"fn {name} not found")
    m = ms[which]
    end = find_block(src, m.end())
    body = strip_comments(src[m.end():end - 1])
    return m.group(1).strip(), (m.group(3) or '').strip(), body.strip()


def const(src, name):
    m = re.search(r'const\s+' + name + r'\s*:\s*\w+\s*=\s*(\d+)\s*;', src)
    if not m:
        fail(f"const {name} not found")
    return int(m.group(1))


SIZEOF = {'usize': 8, 'size_t': 8, 'c_int': 4, 'cmsghdr': 16, 'sockaddr_un': 110, 'linger': 8}

TOK = re.compile(
    r'\s*(mem::size_of::<\s*\w+\s*>\(\)|mem::size_of_val\(&\w+\)|cmp::min|cmp::max|'
    r'(?:Self|OsIpcSender)::\w+|\*?[A-Za-z_][\w.]*(?:\(\))?|\d+(?:usize)?|>=|<=|==|[()+\-*/&!,><])')


def tokenize(s):
    out = []
    i = 0
    s = s.strip()
    while i < len(s):
        m = TOK.match(s, i)
        if not m:
            fail(f"cannot tokenize {s[i:i+40]!r}")
        out.append(m.group(1))
        i = m.end()
    return out


class P:
    """tiny precedence parser; `-` also emits a no-underflow side condition"""

    def __init__(self, toks, env):
        self.t = toks
        self.i = 0
        self.env = env
        self.safe = []

    def peek(self):
        return self.t[self.i] if self.i < len(self.t) else None

    def eat(self, x=None):
        t = self.peek()
        if x is not None and t != x:
            fail(f"expected {x} got {t}")
        self.i += 1
        return t

    def expr(self):  # Rust: & binds looser than + -
        a = self.add()
        while self.peek() == '&':
            self.eat()
            b = self.add()
            a = f"({a} &&& {b})"
        return a

    def add(self):
        a = self.mul()
        while self.peek() in ('+', '-'):
            op = self.eat()
            b = self.mul()
            if op == '-':
                self.safe.append(f"({b} ≤ {a})")
                a = f"({a} - {b})"
            else:
                a = f"({a} + {b})"
        return a

    def mul(self):
        a = self.unary()
        while self.peek() in ('*', '/'):
            op = self.eat()
            b = self.unary()
            a = f"({a} {op} {b})"
        return a

    def unary(self):
        if self.peek() == '!':
            self.eat()
            a = self.unary()
            return f"(2^64 - 1 - {a})"  # bitwise not on a 64-bit word
        return self.atom()

    def atom(self):
        t = self.eat()
        if t is None:
            fail("unexpected end of expression")
        if t == '(':
            a = self.expr()
            self.eat(')')
            return a
        if t.startswith('mem::size_of_val'):
            return '8'  # only ever applied to a usize (`len`, `total_size`)
        if t.startswith('mem::size_of'):
            ty = re.search(r'<\s*(\w+)\s*>', t).group(1)
            if ty not in SIZEOF:
                fail(f"size_of::<{ty}> unknown")
            return str(SIZEOF[ty])
        if re.fullmatch(r'\d+(usize)?', t):
            return t.replace('usize', '')
        if t in ('cmp::min', 'cmp::max'):
            self.eat('(')
            a = self.expr()
            self.eat(',')
            b = self.expr()
            if self.peek() == ',':
                self.eat()
            self.eat(')')
            return f"({'min' if t.endswith('min') else 'max'} {a} {b})"
        if t.startswith('Self::') or t.startswith('OsIpcSender::'):
            f = t.split('::')[1]
            if f not in self.env:
                fail(f"unknown function {f}")
            self.eat('(')
            if self.peek() == ')':
                self.eat(')')
                return self.env[f]
            a = self.expr()
            self.eat(')')
            return f"({self.env[f]} {a})"
        if self.peek() == '(' and not t.endswith('()'):
            if t not in self.env:
                fail(f"unknown function {t}")
            self.eat('(')
            a = self.expr()
            self.eat(')')
            return f"({self.env[t]} {a})"
        if t in self.env:
            return self.env[t]
        fail(f"unknown identifier {t}")


def tr_expr(s, env):
    s = re.sub(r'\s+as\s+\w+', '', s)
    p = P(tokenize(s), env)
    e = p.expr()
    if p.peek() is not None:
        fail(f"trailing tokens in {s!r}: {p.t[p.i:]}")
    return e, p.safe


def conj(safe):
    return " ∧ ".join(safe) if safe else "True"


def generate():
    unix = read('src/platform/unix/mod.rs')
    router = read('src/router.rs')
    ipc = read('src/ipc.rs')
    try:
        asynch = open(os.path.join(REPO, 'src/asynch.rs')).read()
    except OSError:
        asynch = ''
    env = {}
    files = {}
    errors = {}
    HEADER = ["-- GENERATED by tools/translate.py from the Rust sources under $VERIF_REPO/src — do not edit",
              "set_option linter.unusedVariables false", "namespace Gen", ""]

    def run_unit(name, f):
        out = list(HEADER)
        try:
            f(out)
            out.append("end Gen")
            files[name] = "\n".join(out) + "\n"
        except TranslateError as e:
            errors[name] = str(e)
            files[name] = ("/- translator: unit " + name + " could not be translated from the current source:\n" + str(e).replace("-/", "- /") + "\n-/\n"
                           "-- deliberately failing, so that only the properties that depend on this unit lose their proof obligations\n"
                           "example : False := by trivial\n")

    def unit_core(out):
        # EU1 constants
        for rn, ln in (('MAX_FDS_IN_CMSG', 'maxFdsInCmsg'), ('RESERVED_SIZE', 'reservedSize')):
            out.append(f"def {ln} : Nat := {const(unix, rn)}")
            env[rn] = ln
        out.append("")
        # EU2 / EU4 leaf functions
        fnames = {'fragment_size': 'fragmentSize', 'first_fragment_size': 'firstFragmentSize',
                  'CMSG_ALIGN': 'cmsgAlign', 'CMSG_LEN': 'cmsgLen', 'CMSG_SPACE': 'cmsgSpace'}
        env.update(fnames)
        for rn in ['fragment_size', 'CMSG_ALIGN', 'CMSG_LEN', 'CMSG_SPACE', 'first_fragment_size']:
            params, ret, body = find_fn(unix, rn)
            pname = params.split(':')[0].strip()
            lenv = dict(env)
            lenv[pname] = pname
            e, safe = tr_expr(body, lenv)
            out.append(f"def {fnames[rn]} ({pname} : Nat) : Nat := {e}")
            out.append(f"def {fnames[rn]}_safe ({pname} : Nat) : Prop := {conj(safe)}")
        out.append("")
        # EU3 downsize (statement-level pattern)
        params, ret, body = find_fn(unix, 'downsize')
        m = re.fullmatch(
            r'if\s+sent_size\s*(>=|>)\s*(\d+)\s*\{\s*\*sendbuf_size\s*/=\s*(\d+);\s*'
            r'if\s+\*sendbuf_size\s*(>=|>)\s*sent_size\s*\{\s*\*sendbuf_size\s*=\s*sent_size\s*/\s*(\d+);\s*\}\s*'
            r'Ok\(\(\)\)\s*\}\s*else\s*\{\s*Err\(\(\)\)\s*\}', body, re.S)
        if not m:
            fail("downsize has an unexpected shape:\n" + body)
        c1, thr, d1, c2, d2 = m.groups()
        ops = {'>': '>', '>=': '≥'}
        out += ["def downsize (sendbuf_size sent_size : Nat) : Option Nat :=",
                f"  if sent_size {ops[c1]} {thr} then",
                f"    let sendbuf_size := sendbuf_size / {d1}",
                f"    some (if sendbuf_size {ops[c2]} sent_size then sent_size / {d2} else sendbuf_size)",
                "  else none", ""]
        # EU5: arithmetic of the send loop and of the reassembly loop
        sp, sr, send = find_fn(unix, 'send', 0)  # OsIpcSender::send
        if 'channels: Vec<OsIpcChannel>' not in sp:
            fail("first fn send is not OsIpcSender::send")
        senv = dict(env)
        senv.update({'sendbuf_size': 'sb', 'byte_position': 'pos', 'data.len()': 'len',
                     'get_max_fragment_size': '(firstFragmentSize sys)', 'end_byte_position': 'endp'})
        m = re.search(r'if\s+data\.len\(\)\s*(<=|<)\s*Self::get_max_fragment_size\(\)\s*\{', send)
        if not m:
            fail("single-packet test not found in send")
        out.append("/-- `send`: the message is first attempted as a single packet -/")
        out.append(f"def singleTest (sys len : Nat) : Bool := decide (len {'≤' if m.group(1) == '<=' else '<'} firstFragmentSize sys)")
        m = re.search(r'downsize\(&mut sendbuf_size,\s*data\.len\(\)\)', send)
        if not m:
            fail("downsize call of the single-packet attempt not found")
        m = re.search(r'if\s+byte_position\s*==\s*0\s*\{\s*end_byte_position\s*=\s*([^;]+);', send)
        if not m:
            fail("first-fragment end position not found")
        e, safe = tr_expr(m.group(1), senv)
        out.append(f"def endFirst (sb : Nat) : Nat := {e}")
        m = re.search(r'send_first_fragment\(self\.fd\.0,\s*&fds\[\.\.\],\s*&data\[\.\.end_byte_position\],\s*data\.len\(\)\)', send)
        if not m:
            fail("first fragment call has an unexpected shape")
        m = re.search(r'\}\s*else\s*\{\s*end_byte_position\s*=\s*(cmp::min\(.*?\));\s*send_followup_fragment\(dedicated_tx\.fd\.0,\s*&data\[byte_position\.\.end_byte_position\]\)', send, re.S)
        if not m:
            fail("follow-up fragment end position / call not found")
        e, safe = tr_expr(m.group(1), senv)
        out.append(f"def endFollow (len pos sb : Nat) : Nat := {e}")
        m = re.search(r'downsize\(&mut sendbuf_size,\s*(end_byte_position\s*-\s*byte_position)\)', send)
        if not m:
            fail("downsize call of the fragment loop not found")
        e, safe = tr_expr(m.group(1), senv)
        out.append(f"def sentSize (pos endp : Nat) : Nat := {e}")
        m = re.search(r'while\s+byte_position\s*<\s*data\.len\(\)\s*\{', send)
        if not m:
            fail("fragment loop head not found")
        m = re.search(r'let\s+mut\s+sendbuf_size\s*=\s*\*SYSTEM_SENDBUF_SIZE;', send)
        if not m:
            fail("initial sendbuf_size not found")
        # the sender's own copy of the dedicated receive end is released as soon as the first fragment has carried it over (C09)
        m = re.search(r'if\s+byte_position\s*==\s*0\s*\{\s*dedicated_rx\s*=\s*None;\s*\}\s*byte_position\s*=\s*end_byte_position;', send)
        m0 = re.search(r'let\s+mut\s+dedicated_rx\s*=\s*Some\(dedicated_rx\);', send)
        out.append(f"def vKeepOwnRef : Bool := {'false' if m and m0 else 'true'}  -- false: `dedicated_rx = None` right after the first fragment went out")
        # descriptor order in send: channels, then regions, then the dedicated receiver
        i1 = send.find('for channel in channels.iter()')
        i2 = send.find('for shared_memory_region in shared_memory_regions.iter()')
        i3 = send.find('fds.push(dedicated_rx.fd.get())')
        i4 = send.find('while byte_position')
        order_ok = 0 <= i1 < i2 < i3 < i4
        out.append(f"def shape_fdOrder : Bool := {'true' if order_ok else 'false'}  -- channels, regions, dedicated socket (last)")
        # attachment limits in send: `if fds.len() [+ k] > MAX_FDS_IN_CMSG as usize { return Err(..) }`,
        # the first before any transmission, the second immediately before the dedicated channel is created
        def limit(m):
            if not m:
                return None
            add = int(m.group(1) or 0)
            op = {'>': '<', '>=': '≤'}[m.group(2)]
            return f"decide (maxFdsInCmsg {op} nfds + {add})"
        pat = r'if\s+fds\.len\(\)\s*(?:\+\s*(\d+)\s*)?(>=|>)\s*MAX_FDS_IN_CMSG\s+as\s+usize\s*\{\s*return\s+Err'
        i_single = send.find('if data.len()')
        i_chan = send.find('channel()?')
        m1 = None
        m2 = None
        for m in re.finditer(pat, send):
            if m.start() < i_single:
                m1 = m
            elif m.start() < i_chan:
                m2 = m
        out.append("/-- `send` refuses the message before transmitting anything -/")
        out.append(f"def refuseAll (nfds : Nat) : Bool := {limit(m1) or 'false'}")
        out.append("/-- `send` refuses to start a fragmented transfer (checked right before the dedicated socket pair is created) -/")
        out.append(f"def refuseFrag (nfds : Nat) : Bool := {limit(m2) or 'false'}")
        out.append("")
        # recv
        rp, rr, recv = find_fn(unix, 'recv', 3) if False else (None, None, None)
        ms = list(re.finditer(r'\nfn\s+recv\s*\(', unix))
        if not ms:
            fail("free fn recv not found")
        mo = re.compile(r'\{').search(unix, ms[0].end())
        # skip the return type: the body's opening brace follows "UnixError> {"
        mo = re.compile(r'UnixError>\s*\{').search(unix, ms[0].end())
        if not mo:
            fail("free fn recv: body not found")
        recv = strip_comments(unix[mo.end():find_block(unix, mo.end()) - 1])
        renv = dict(env)
        renv.update({'write_pos': 'wp', 'total_size': 'total', '*SYSTEM_SENDBUF_SIZE': 'sys', 'bytes_read': 'n',
                     'get_max_fragment_size': '(firstFragmentSize sys)'})
        m = re.search(r'main_data_buffer\s*=\s*Vec::with_capacity\((OsIpcSender::get_max_fragment_size\(\))\);\s*'
                      r'main_data_buffer\.set_len\((OsIpcSender::get_max_fragment_size\(\))\);', recv)
        if not m:
            fail("recv: first buffer allocation has an unexpected shape")
        e, _ = tr_expr(m.group(1), renv)
        out.append(f"def recvFirstBuf (sys : Nat) : Nat := {e}")
        m = re.search(r'main_data_buffer\.set_len\((bytes_read\s*-\s*mem::size_of_val\(&total_size\))\);', recv)
        if not m:
            fail("recv: header subtraction not found")
        e, safe = tr_expr(m.group(1), renv)
        out.append(f"def recvFirstLen (n : Nat) : Nat := {e}")
        out.append(f"def recvFirstLen_safe (n : Nat) : Prop := {conj(safe)}")
        m = re.search(r'let\s+channel_length\s*=\s*if\s+cmsg_length\s*==\s*0\s*\{\s*0\s*\}\s*else\s*\{\s*(.*?)\s*\};', recv, re.S)
        if not m:
            fail("recv: channel_length expression not found")
        cenv = dict(renv)
        cenv['cmsg.cmsg_len()'] = 'cmsg_len'
        e, safe = tr_expr(m.group(1), cenv)
        out.append(f"def channelLength (cmsg_len : Nat) : Nat := {e}")
        out.append(f"def channelLength_safe (cmsg_len : Nat) : Prop := {conj(safe)}")
        m = re.search(r'if\s+total_size\s*==\s*main_data_buffer\.len\(\)\s*\{\s*return\s+Ok', recv)
        if not m:
            fail("recv: fast-path test not found")
        m = re.search(r'let\s+dedicated_rx\s*=\s*channels\.pop\(\)\.unwrap\(\)\.to_receiver\(\);', recv)
        out.append(f"def shape_recvPopsLast : Bool := {'true' if m else 'false'}")
        m = re.search(r'main_data_buffer\.reserve_exact\((total_size\s*-\s*len)\);', recv)
        if not m:
            fail("recv: reserve_exact not found")
        m = re.search(r'while\s+main_data_buffer\.len\(\)\s*<\s*total_size\s*\{', recv)
        if not m:
            fail("recv: reassembly loop head not found")
        m = re.search(r'let\s+end_pos\s*=\s*(cmp::min\(.*?\));', recv, re.S)
        if not m:
            fail("recv: end_pos not found")
        e, _ = tr_expr(m.group(1), renv)
        out.append(f"def recvEnd (sys wp total : Nat) : Nat := {e}")
        m = re.search(r'main_data_buffer\[write_pos\.\.\]\.as_mut_ptr\(\)\s*as\s*\*mut\s*c_void,\s*(end_pos\s*-\s*write_pos),', recv)
        if not m:
            fail("recv: follow-up read size not found")
        # buffer length after a follow-up read (C18): `main_data_buffer.set_len(<expr>)` right after the `libc::recv(...)` call
        mr = re.search(r'libc::recv\(.*?\);\s*(?:if\s+result\s*>\s*0\s*\{)?\s*main_data_buffer\.set_len\(([^;]*)\);', recv, re.S)
        if not mr:
            fail("recv: set_len after the follow-up read not found")
        arg = re.sub(r'\s+', ' ', mr.group(1).strip())
        forms = {'write_pos + cmp::max(result, 0) as usize': 'wp + r', 'write_pos + result as usize': 'wp + r', 'end_pos': 'ep',
                 'write_pos + (result as usize)': 'wp + r'}
        if arg not in forms:
            fail(f"recv: set_len argument after the follow-up read has an unexpected shape: {arg}")
        out.append("/-- buffer length set after a follow-up `recv` that returned `r` > 0 bytes at `wp` (requested up to `ep`) -/")
        out.append(f"def recvSetLenAfter (wp r ep : Nat) : Nat := {forms[arg]}")
        m2 = re.search(r'assert!\(end_pos\s*<=\s*main_data_buffer\.capacity\(\)\);\s*main_data_buffer\.set_len\(end_pos\);', recv)
        out.append(f"def shape_recvSetLenBeforeRead : Bool := {'true' if m2 else 'false'}  -- set_len(end_pos) guarded by the capacity assert")
        # attachments (C12 / C04 / C15): the vectors are created when `recv` is entered, filled from the control message of the
        # first packet only, and a truncated message is discarded by dropping them and starting over
        rflat = re.sub(r'\s+', '', recv)
        fresh = rflat.startswith('let(mutchannels,mutshared_memory_regions)=(Vec::new(),Vec::new());')
        pushes = len(re.findall(r'channels\.push\(', rflat)) == 1 and len(re.findall(r'shared_memory_regions\.push\(', rflat)) == 1
        cm = 'letmutcmsg=UnixCmsg::new(&mutiovec)?;letbytes_read=cmsg.recv(fd,blocking_mode)?;' in rflat
        out.append(f"def shape_recvFreshVectors : Bool := {'true' if fresh and pushes and cm else 'false'}  -- vectors and control buffer created per call, filled once")
        disc = 'cmp::Ordering::Equal=>{drop(dedicated_rx);drop(channels);drop(shared_memory_regions);returnrecv(fd,blocking_mode);},' in rflat
        out.append(f"def shape_recvDiscardRestarts : Bool := {'true' if disc else 'false'}  -- truncated: drop everything collected, then receive afresh")
        # once the first packet is taken the call stays with the message: follow-up fragments are read with a plain blocking
        # recv() (flags 0), whatever the caller's receive mode — no poll, no time-out, no non-blocking flag inside the loop
        mloop = re.search(r'while\s+main_data_buffer\.len\(\)\s*<\s*total_size\s*\{', recv)
        lbody = recv[mloop.end():find_block(recv, mloop.end()) - 1] if mloop else ''
        lflat = re.sub(r'\s+', '', lbody).replace('returnrecv(fd,blocking_mode);', '')
        fb = ('libc::recv(dedicated_rx.fd.get(),main_data_buffer[write_pos..].as_mut_ptr()as*mutc_void,end_pos-write_pos,0,)' in lflat
              and 'poll' not in lflat and 'blocking_mode' not in lflat and 'MSG_DONTWAIT' not in lflat and 'O_NONBLOCK' not in lflat and 'EAGAIN' not in lflat)
        out.append(f"def shape_followupsBlocking : Bool := {'true' if fb else 'false'}  -- a message once begun is assembled to the end (or found truncated)")
        # a follow-up read interrupted by a signal (EINTR) is repeated: an interrupted call has transferred nothing
        retry = ('cmp::Ordering::Less=>{leterror=UnixError::last();ifmatches!(error,UnixError::Errno(libc::EINTR)){continue;}returnErr(error);},' in
                 re.sub(r'\s+', '', lbody))
        out.append(f"def shape_followupRetriesEintr : Bool := {'true' if retry else 'false'}  -- false: `Less => return Err(UnixError::last())` whatever the errno")
        # …and the retry starts where the interrupted read started: the buffer length, raised to end_pos before the read, is put
        # back after *every* read, whatever it returned (`set_len(write_pos + max(result, 0))`, not guarded by the sign of the result)
        restore = bool(re.search(r'libc::recv\(dedicated_rx\.fd\.get\(\),main_data_buffer\[write_pos\.\.\]\.as_mut_ptr\(\)as\*mutc_void,end_pos-write_pos,0,\);'
                                 r'main_data_buffer\.set_len\(write_pos\+cmp::max\(result,0\)asusize\);result\};', re.sub(r'\s+', '', lbody)))
        out.append(f"def shape_followupRestoresLen : Bool := {'true' if restore else 'false'}  -- false: the length stays at end_pos after a read that returned an error")
        # truncated message handling: legacy returns ChannelClosed; repaired code receives the next message
        m = re.search(r'cmp::Ordering::Equal\s*=>\s*return\s+Err\(UnixError::ChannelClosed\)', recv)
        out.append(f"def recvTruncatedIsClosed : Bool := {'true' if m else 'false'}")
        out.append("")
    run_unit('Gen', unit_core)
    def unit_unsafe(out):
        # inventory of `unsafe` in the Unix transport (C18): every site is accounted for in Props/C18.lean / DESIGN.md; a new,
        # moved or removed site has to be looked at again
        src = strip_comments(unix)
        sites = []
        for m in re.finditer(r'(unsafe\s+)?fn\s+(\w+)\s*(?:<[^>]*>)?\s*\(', src):
            i, depth = m.end(), 1
            while depth > 0 and i < len(src):
                if src[i] == '(':
                    depth += 1
                elif src[i] == ')':
                    depth -= 1
                i += 1
            j, k = src.find('{', i), src.find(';', i)
            if j < 0 or (0 <= k < j):
                continue
            body = src[j + 1:find_block(src, j + 1) - 1]
            n = len(re.findall(r'\bunsafe\b', body)) + (1 if m.group(1) else 0)
            if n:
                sites.append((m.group(2), n))
        total = len(re.findall(r'\bunsafe\b', src))
        out.append("/-- functions of `platform/unix/mod.rs` that contain `unsafe`, in source order, with the number of occurrences -/")
        out.append("def unsafeSites : List (String × Nat) := [" + ", ".join(f'("{a}", {b})' for a, b in sites) + "]")
        out.append(f"def unsafeOutsideFns : Nat := {total - sum(b for _, b in sites)}  -- `unsafe impl Send / Sync`")
        # pointer-level operations: each kind appears where the bounds theorems expect it and nowhere else
        def count(rx):
            return len(re.findall(rx, src))
        kinds = [("set_len", r'\.set_len\('), ("as_mut_ptr", r'\.as_mut_ptr\('), ("as_ptr", r'\.as_ptr\('), ("copy_nonoverlapping", r'copy_nonoverlapping'),
                 ("from_raw_parts", r'slice::from_raw_parts'), ("offset/add", r'\.(?:offset|add)\('), ("malloc", r'libc::malloc'), ("free", r'libc::free'),
                 ("mmap", r'libc::mmap'), ("munmap", r'libc::munmap'), ("write_bytes/memset", r'write_bytes|libc::memset'), ("strncpy", r'libc::strncpy'),
                 ("zeroed", r'mem::zeroed'), ("transmute", r'transmute'), ("get_unchecked", r'get_unchecked')]
        out.append("def ptrOps : List (String × Nat) := [" + ", ".join('("%s", %d)' % (k, count(rx)) for k, rx in kinds) + "]")
    run_unit('GenUnsafe', unit_unsafe)

    def unit_own(out):
        # ownership of descriptors (C11 / C03): who closes what, exactly once; nothing is inheritable
        flat = re.sub(r'\s+', '', strip_comments(unix))
        rcv_drop = 'implDropforOsIpcReceiver{fndrop(&mutself){unsafe{ifself.fd.get()>=0{letresult=libc::close(self.fd.get());assert!(thread::panicking()||result==0);}}}}'
        consume = 'fnconsume_fd(&self)->c_int{letfd=self.fd.get();self.fd.set(-1);fd}'
        out.append(f"def shape_receiverOwnsOnce : Bool := {'true' if rcv_drop in flat and consume in flat and 'pubstructOsIpcReceiver{fd:Cell<c_int>,}' in flat else 'false'}  -- Drop closes unless consumed; consume marks -1")
        shared = ('structSharedFileDescriptor(c_int);implDropforSharedFileDescriptor{fndrop(&mutself){unsafe{letresult=libc::close(self.0);assert!(thread::panicking()||result==0);}}}')
        sender = '#[derive(PartialEq,Debug,Clone)]pubstructOsIpcSender{fd:Arc<SharedFileDescriptor>,' in flat and 'fd:Arc::new(SharedFileDescriptor(fd)),' in flat
        out.append(f"def shape_senderSharedDescriptor : Bool := {'true' if shared in flat and sender else 'false'}  -- clones share one descriptor, closed when the last clone drops")
        opaque = ('implDropforOsOpaqueIpcChannel{fndrop(&mutself){ifself.fd>=0{letresult=unsafe{libc::close(self.fd)};assert!(thread::panicking()||result==0);}}}' in flat
                  and 'pubfnto_sender(&mutself)->OsIpcSender{OsIpcSender::from_fd(mem::replace(&mutself.fd,-1))}' in flat
                  and 'pubfnto_receiver(&mutself)->OsIpcReceiver{OsIpcReceiver::from_fd(mem::replace(&mutself.fd,-1))}' in flat)
        out.append(f"def shape_opaqueOwnsUntilConverted : Bool := {'true' if opaque else 'false'}")
        setdrop = 'implDropforOsIpcReceiverSet{fndrop(&mutself){for&PollEntry{id:_,fd}inself.pollfds.values(){letresult=unsafe{libc::close(fd)};assert!(thread::panicking()||result==0);}}}' in flat
        out.append(f"def shape_setClosesMembers : Bool := {'true' if setdrop else 'false'}")
        store = 'implDropforBackingStore{fndrop(&mutself){unsafe{letresult=libc::close(self.fd);assert!(thread::panicking()||result==0);}}}' in flat
        unmap = 'implDropforOsIpcSharedMemory{fndrop(&mutself){unsafe{if!self.ptr.is_null(){letresult=libc::munmap(self.ptras*mutc_void,self.length);assert!(thread::panicking()||result==0);}}}}' in flat
        out.append(f"def shape_regionReleases : Bool := {'true' if store and unmap else 'false'}  -- one close per backing store, one munmap of the mapped length")
        cloexec = ('#[cfg(target_os="linux")]constSOCK_FLAGS:c_int=libc::SOCK_CLOEXEC;' in flat
                   and '#[cfg(target_os="linux")]constRECVMSG_FLAGS:c_int=libc::MSG_CMSG_CLOEXEC;' in flat
                   and 'socketpair(libc::AF_UNIX,SOCK_SEQPACKET|SOCK_FLAGS,0,&mutresults[0],)' in flat
                   and len(re.findall(r'recvmsg\(fd,&mutself\.msghdr,RECVMSG_FLAGS(?:\|libc::MSG_DONTWAIT)?\)', flat)) == len(re.findall(r'[^_a-z]recvmsg\(', flat)) >= 1
                   and 'libc::fcntl(self.store.fd(),libc::F_DUPFD_CLOEXEC,0)' in flat and 'libc::dup(' not in flat and 'F_DUPFD,' not in flat
                   and 'memfd_create(name.as_ptr(),libc::MFD_CLOEXECasusize)' in flat
                   and len(re.findall(r'libc::socket\(libc::AF_UNIX,SOCK_SEQPACKET\|SOCK_FLAGS,0\)', flat)) == len(re.findall(r'libc::socket\(', flat)) >= 1
                   and 'libc::accept4(self.fd,sockaddr,sockaddr_len,SOCK_FLAGS)' in flat and 'libc::accept(' not in flat)
        out.append(f"def shape_everythingCloexec : Bool := {'true' if cloexec else 'false'}  -- socketpair, socket, accept4, recvmsg, dup, memfd")
        # a raw descriptor gets an owner before anything can fail: connect (address first, then socket, then the owning sender,
        # then connect), one-shot server new (owner before bind — shape_serverOwnsBeforeBind)
        cn = 'let(sockaddr,len)=new_sockaddr_un(name.as_ptr())?;letfd=libc::socket(libc::AF_UNIX,SOCK_SEQPACKET|SOCK_FLAGS,0);iffd<0{returnErr(UnixError::last());}letsender=OsIpcSender::from_fd(fd);iflibc::connect(' in flat
        out.append(f"def shape_connectOwnsBeforeFallible : Bool := {'true' if cn else 'false'}")
        # a receiver set takes a member's descriptor over only after the registration has succeeded (on failure the receiver passed
        # in still owns it and closes it when dropped at the end of `add`)
        m = re.search(r'pubfnadd\(&mutself,receiver:OsIpcReceiver\)->Result<u64,UnixError>\{(.*?)\}pubfnselect', flat)
        if not m:
            fail("OsIpcReceiverSet::add not found")
        ab = m.group(1)
        i_reg, i_con = ab.find('.register(&mutSourceFd(&fd),fd_token,Interest::READABLE)?;'), ab.find('receiver.consume_fd()')
        if i_reg < 0 or i_con < 0 or ab.count('consume_fd()') != 1:
            fail("OsIpcReceiverSet::add: registration / take-over of the descriptor not recognised")
        out.append(f"def shape_setAddOwnsAfterRegister : Bool := {'true' if i_reg < i_con else 'false'}  -- false: descriptor taken out of the receiver before the fallible registration")
    run_unit('GenOwn', unit_own)

    def unit_set(out):
        # receiver set (C06 / C07 / C19): ids, registration, the wait, the per-member drain loop
        mo = re.search(r'impl OsIpcReceiverSet \{', unix)
        if not mo:
            fail("impl OsIpcReceiverSet not found")
        rs = strip_comments(unix[mo.end():find_block(unix, mo.end()) - 1])
        m = re.search(r'Events::with_capacity\((\d+)\)', rs)
        if not m:
            fail("Events::with_capacity(N) not found")
        out.append(f"def eventsCap : Nat := {m.group(1)}")
        flat = re.sub(r'\s+', '', rs)
        ids = ('incrementor:0..,' in flat and 'letlast_index=self.incrementor.next().unwrap();' in flat
               and 'PollEntry{id:last_index,fd}' in flat and 'Ok(last_index)' in flat)
        out.append(f"def shape_idsFromCounter : Bool := {'true' if ids else 'false'}  -- ids are never re-used")
        i_reg = flat.find('.register(&mutSourceFd(&fd),fd_token,Interest::READABLE)?;')
        i_ins = flat.find('self.pollfds.insert(fd_token,poll_entry);')
        out.append(f"def shape_registerReadable : Bool := {'true' if 0 <= i_reg < i_ins else 'false'}")
        wait = ('loop{matchself.poll.poll(&mutself.events,None){Ok(())if!self.events.is_empty()=>break,Ok(())=>{},'
                'Err(referror)=>{iferror.kind()!=io::ErrorKind::Interrupted{returnErr(UnixError::last());}},}'
                'if!self.events.is_empty(){break;}}')
        out.append(f"def shape_waitRetriesOnEintr : Bool := {'true' if wait in flat else 'false'}  -- blocks without time-out; EINTR and empty wake-ups retry")
        drain = ('loop{matchrecv(poll_entry.fd,BlockingMode::Nonblocking){'
                 'Ok((data,channels,shared_memory_regions))=>{selection_results.push(OsIpcSelectionResult::DataReceived(poll_entry.id,data,channels,shared_memory_regions,));},'
                 'Err(err)iferr.channel_is_closed()=>{self.pollfds.remove(&event_token).unwrap();self.poll.registry().deregister(&mutSourceFd(&poll_entry.fd)).unwrap();'
                 'unsafe{libc::close(poll_entry.fd);}selection_results.push(OsIpcSelectionResult::ChannelClosed(poll_entry.id));break;},'
                 'Err(UnixError::Errno(code))ifcode==EWOULDBLOCK=>{break;},'
                 'Err(err)=>returnErr(err),}}')
        out.append(f"def shape_drainUntilWouldBlock : Bool := {'true' if drain in flat else 'false'}  -- every ready member is read until EWOULDBLOCK or closure; closure deregisters and closes")
        per_event = (wait + 'letmutselection_results=Vec::new();foreventinself.events.iter(){assert!(event.is_readable());letevent_token=event.token();'
                     'letpoll_entry=self.pollfds.get(&event_token).expect("Gotevent') in flat
        only_new = len(re.findall(r'self\.events=', flat)) == 0 and len(re.findall(r'events:Events::with_capacity', flat)) == 1
        out.append(f"def shape_everyEventServed : Bool := {'true' if per_event and only_new and 'Ok(selection_results)' in flat else 'false'}  -- the batch the wait returned is the batch that is served")
    run_unit('GenSet', unit_set)
    def unit_timed(out):
        # receive modes (C10): the flag is set before and cleared after the first recvmsg
        _, _, crecv = find_fn(unix, 'recv', 0) if False else (None, None, None)
        mc = re.search(r'unsafe fn recv\(&mut self, fd: c_int, blocking_mode: BlockingMode\)[^{]*\{', unix)
        if not mc:
            fail("UnixCmsg::recv not found")
        crecv = strip_comments(unix[mc.end():find_block(unix, mc.end()) - 1])
        iset = crecv.find('libc::fcntl(fd, libc::F_SETFL, libc::O_NONBLOCK)')
        ircv = crecv.find('recvmsg(fd, &mut self.msghdr, RECVMSG_FLAGS)')
        iclr = crecv.find('libc::fcntl(fd, libc::F_SETFL, 0)')
        out.append(f"def shape_nonblockSetBefore : Bool := {'true' if 0 <= iset < ircv else 'false'}")
        out.append(f"def shape_nonblockClearedAfter : Bool := {'true' if 0 <= ircv < iclr else 'false'}")
        # end of file is confirmed by a second, non-blocking look at the queue (the kernel can report it while a packet the peer
        # queued just before closing is there)
        cflat = re.sub(r'\s+', '', crecv)
        conf = ('letmutresult=recvmsg(fd,&mutself.msghdr,RECVMSG_FLAGS);ifresult==0{self.msghdr.msg_controllen=CMSG_SPACE(MAX_FDS_IN_CMSGasusize*mem::size_of::<c_int>())asMsgControlLen;'
                'self.msghdr.msg_flags=0;result=recvmsg(fd,&mutself.msghdr,RECVMSG_FLAGS|libc::MSG_DONTWAIT);ifresult<0&&matches!(UnixError::last(),UnixError::Errno(EAGAIN)){result=0;}}'
                'letresult=matchresult.cmp(&0){cmp::Ordering::Equal=>Err(UnixError::ChannelClosed),') in cflat
        # this flag selects the behaviour of the executable model (`Timed.call`, used by the driver): it is `false` only for the
        # one form known to lack the confirmation (a single recvmsg whose result goes straight to the final match); any other
        # text is "not recognised" and fails the unit, rather than letting the model claim the unconfirmed behaviour
        legacy = (cflat.count('recvmsg(') == 1
                  and 'letresult=recvmsg(fd,&mutself.msghdr,RECVMSG_FLAGS);letresult=matchresult.cmp(&0){cmp::Ordering::Equal=>Err(UnixError::ChannelClosed),' in cflat)
        if not conf and not legacy:
            fail("UnixCmsg::recv: how end of file is established (confirmed by a second look, or not) is not recognised")
        out.append(f"def shape_eofConfirmed : Bool := {'true' if conf else 'false'}  -- recvmsg() == 0 is followed by one more non-blocking recvmsg before `ChannelClosed`")
        m = re.search(r'cmp::Ordering::Equal\s*=>\s*return\s+Err\(UnixError::Errno\(EAGAIN\)\)', crecv)
        out.append(f"def shape_pollTimeoutIsEagain : Bool := {'true' if m else 'false'}")
        # the wait handed to poll(): `duration.as_<unit>().try_into().unwrap_or(-1)`
        m = re.search(r'duration\.as_(secs|millis|micros|nanos)\(\)\.try_into\(\)\.unwrap_or\(-1\)', crecv)
        if not m:
            fail("UnixCmsg::recv: conversion of the timeout to poll()'s argument has an unexpected shape")
        mul, div = {'secs': (1, 1000000), 'millis': (1, 1000), 'micros': (1, 1), 'nanos': (1000, 1)}[m.group(1)]
        out.append(f"def pollUnitMul : Nat := {mul}")
        out.append(f"def pollUnitDiv : Nat := {div}")
        m = re.search(r'let\s+events\s*=\s*libc::POLLIN\s*\|\s*libc::POLLPRI\s*\|\s*POLLRDHUP\s*;', crecv)
        out.append(f"def shape_pollEvents : Bool := {'true' if m else 'false'}  -- POLLIN | POLLPRI | POLLRDHUP")
        out.append("")
    run_unit('GenTimed', unit_timed)
    def unit_shm(out):
        # shared memory (C05/C18): the size given to the memory object and the length mapped by the creator
        _, _, bsnew = find_fn(unix, 'new', 0) if False else (None, None, None)
        mb = re.search(r'impl BackingStore \{', unix)
        if not mb:
            fail("impl BackingStore not found")
        bs = strip_comments(unix[mb.end():find_block(unix, mb.end()) - 1])
        m = re.search(r'let\s+fd\s*=\s*create_shmem\(name,\s*([^;]+?)\);', bs)
        if not m:
            fail("BackingStore::new: create_shmem call not found")
        e, _ = tr_expr(m.group(1), {'length': 'length'})
        sizes = re.findall(r'libc::ftruncate\(fd,\s*(\w+)\s+as\s+off_t\)', unix)
        if not sizes or any(x != 'length' for x in sizes):
            fail("create_shmem: ftruncate(fd, length as off_t) not found")
        out.append(f"def shmObjectSize (length : Nat) : Nat := {e}")
        m = re.search(r'if\s+length\s*==\s*0\s*\{[^}]*return\s*\(ptr::null_mut\(\),\s*length\);', bs, re.S)
        out.append(f"def shape_mapZeroIsNull : Bool := {'true' if m else 'false'}")
        md = re.search(r'fn deref\(&self\) -> &\[u8\] \{', unix)
        dz = False
        if md:
            body = strip_comments(unix[md.end():find_block(unix, md.end()) - 1])
            dz = bool(re.search(r'if\s+self\.ptr\.is_null\(\)\s*\{\s*return\s*&\[\];\s*\}', body))
        out.append(f"def shape_derefNullIsEmpty : Bool := {'true' if dz else 'false'}")
        out.append("")
    run_unit('GenShm', unit_shm)
    def unit_oneshot(out):
        m = re.search(r'libc::listen\(fd,\s*(\d+)\)', unix)
        if not m:
            fail("listen(fd, N) not found")
        out.append(f"def listenBacklog : Nat := {m.group(1)}")
        m = re.search(r'l_onoff:\s*(\d+),\s*l_linger:\s*(\d+)', unix)
        if not m:
            fail("linger literal not found")
        out.append(f"def lingerOn : Nat := {m.group(1)}")
        out.append(f"def lingerSecs : Nat := {m.group(2)}")
        # one-shot server (C08)
        mo = re.search(r'impl OsIpcOneShotServer \{', unix)
        if not mo:
            fail("impl OsIpcOneShotServer not found")
        osrv = strip_comments(unix[mo.end():find_block(unix, mo.end()) - 1])
        td = bool(re.search(r'Builder::new\(\)\.tempdir\(\)\?', osrv))
        out.append(f"def shape_tempdirDefault : Bool := {'true' if td else 'false'}  -- no custom prefix / rand_bytes")
        i_own = osrv.find('let server = OsIpcOneShotServer {')
        i_bind = osrv.find('libc::bind(')
        i_listen = osrv.find('libc::listen(')
        i_sock = osrv.find('libc::socket(')
        i_addr = osrv.find('new_sockaddr_un(')
        out.append(f"def shape_serverOwnsBeforeBind : Bool := {'true' if 0 <= i_addr < i_sock < i_own < i_bind < i_listen else 'false'}")
        _, _, nsu = find_fn(unix, 'new_sockaddr_un')
        pc = bool(re.search(r'if\s+libc::strlen\(path\)\s*>=\s*sockaddr\.sun_path\.len\(\)\s*\{\s*return\s+Err', nsu))
        out.append(f"def shape_pathChecked : Bool := {'true' if pc else 'false'}")
        i_acc = osrv.find('libc::accept4(self.fd, sockaddr, sockaddr_len, SOCK_FLAGS)')
        i_own = osrv.find('let receiver = OsIpcReceiver::from_fd(client_fd);')
        i_lin = osrv.find('make_socket_lingering(client_fd)?')
        i_rcv = osrv.find('receiver.recv()')
        out.append(f"def shape_acceptLingerThenRecv : Bool := {'true' if 0 <= i_acc < i_lin < i_rcv else 'false'}")
        out.append(f"def shape_acceptOwnsBeforeLinger : Bool := {'true' if 0 <= i_acc < i_own < i_lin else 'false'}  -- the accepted descriptor has its owner before setsockopt can fail")
        # `accept` consumes the server: a wait interrupted by a signal is repeated inside (accept4, and the receive of the first message)
        oflat = re.sub(r'\s+', '', osrv)
        r1 = 'letclient_fd=loop{letclient_fd=libc::accept4(self.fd,sockaddr,sockaddr_len,SOCK_FLAGS);ifclient_fd>=0{breakclient_fd;}leterror=UnixError::last();if!matches!(error,UnixError::Errno(libc::EINTR)){returnErr(error);}};' in oflat
        r2 = 'let(data,channels,shared_memory_regions)=loop{matchreceiver.recv(){Err(UnixError::Errno(libc::EINTR))=>{},result=>breakresult?,}};' in oflat
        out.append(f"def shape_acceptRetriesEintr : Bool := {'true' if r1 and r2 else 'false'}")
        sc = bool(re.search(r'libc::socket\(libc::AF_UNIX,\s*SOCK_SEQPACKET\s*\|\s*SOCK_FLAGS,\s*0\)', osrv)) and \
            bool(re.search(r'#\[cfg\(target_os = "linux"\)\]\s*const SOCK_FLAGS: c_int = libc::SOCK_CLOEXEC;', unix)) and \
            'libc::accept4(self.fd, sockaddr, sockaddr_len, SOCK_FLAGS)' in osrv
        out.append(f"def shape_rendezvousCloexec : Bool := {'true' if sc else 'false'}  -- listening socket and accepted connection are close-on-exec")
        ac = bool(re.search(r'pub fn accept\(\s*self,', unix))
        out.append(f"def shape_acceptConsumesServer : Bool := {'true' if ac else 'false'}")

    run_unit('GenOneShot', unit_oneshot)
    def unit_ipc(out):
        # EU-ipc (C14 / C16): the order in which IpcSender::send and OpaqueIpcMessage::to touch the thread-local tables
        def script(body, pats, what, forbidden):
            flat = re.sub(r'\s+', '', body)
            hits = []
            spans = []
            for name, rx in pats:
                for m in re.finditer(rx, flat):
                    nm = name(m) if callable(name) else name
                    hits.append((m.start(), nm))
                    spans.append((m.start(), m.end()))
            hits.sort()
            spans.sort()
            residue, pos = [], 0
            for a, b in spans:
                if a < pos:
                    fail(f"{what}: overlapping table operations")
                residue.append(flat[pos:a])
                pos = b
            residue.append(flat[pos:])
            residue = '§'.join(residue)
            for tok in forbidden:
                if re.search(tok, residue):
                    fail(f"{what}: unexpected construct {tok!r} besides the recognised table operations:\n{residue}")
            return [h[1] for h in hits]

        m = re.search(r'pub fn send\(&self,\s*data:\s*T\)\s*->\s*Result<\(\),\s*bincode::Error>\s*\{', ipc)
        if not m:
            fail("IpcSender::send not found")
        send_body = strip_comments(ipc[m.end():find_block(ipc, m.end()) - 1])
        send_pats = [
            ('saveChans', r'mem::take\(&mut\*os_ipc_channels_for_serialization\.borrow_mut\(\),?\)'),
            ('saveRegions', r'mem::take\(&mut\*os_ipc_shared_memory_regions_for_serialization\.borrow_mut\(\),?\)'),
            (lambda mm: 'serializeProp' if mm.group(1) else 'serialize', r'bincode::serialize_into\(&mutbytes,&data\)(\?)?'),
            ('restoreChans', r'mem::replace\(&mut\*os_ipc_channels_for_serialization\.borrow_mut\(\),old_os_ipc_channels,?\)'),
            ('restoreRegions', r'mem::replace\(&mut\*os_ipc_shared_memory_regions_for_serialization\.borrow_mut\(\),old_os_ipc_shared_memory_regions,?\)'),
            ('propagate', r'result\?;'),
            ('osSend', r'self\.os_sender\.send\(&bytes\[\.\.\],os_ipc_channels,os_ipc_shared_memory_regions,?\)\?'),
        ]
        forbidden = [r'mem::', r'borrow', r'\?', r'\breturn\b', r'\bif\b', r'\bmatch\b', r'\bwhile\b', r'\bfor\b', r'\bloop\b', r'\.send\(', r'serialize', r'unsafe',
                     r'\bdrop\(', r'forget']
        steps = script(send_body, send_pats, 'IpcSender::send', forbidden)
        out.append("")
        out.append("/-- table operations of `IpcSender::send`, in source order -/")
        out.append("inductive SendStep | saveChans | saveRegions | serialize | serializeProp | restoreChans | restoreRegions | propagate | osSend")
        out.append("deriving Repr, DecidableEq")
        out.append("def sendScript : List SendStep := [" + ", ".join('.' + x for x in steps) + "]")
        m = re.search(r'pub fn to<T>\(mut self\)\s*->\s*Result<T,\s*bincode::Error>\s*where[^{]*\{', ipc)
        if not m:
            fail("OpaqueIpcMessage::to not found")
        to_body = strip_comments(ipc[m.end():find_block(ipc, m.end()) - 1])
        to_pats = [
            ('swapChans', r'mem::swap\(&mut\*os_ipc_channels_for_deserialization\.borrow_mut\(\),&mutself\.os_ipc_channels,?\)'),
            ('swapRegions', r'mem::swap\(&mut\*os_ipc_shared_memory_regions_for_deserialization\.borrow_mut\(\),&mutself\.os_ipc_shared_memory_regions,?\)'),
            (lambda mm: 'deserializeProp' if mm.group(1) else 'deserialize', r'bincode::deserialize\(&self\.data\[\.\.\]\)(\?)?'),
        ]
        steps = script(to_body, to_pats, 'OpaqueIpcMessage::to', forbidden + [r'deserialize'])
        if not re.search(r';result\},?\)\}\)$', re.sub(r'\s+', '', to_body)):
            fail("OpaqueIpcMessage::to does not end by returning `result`")
        out.append("/-- table operations of `OpaqueIpcMessage::to`, in source order (the decode result is returned at the end) -/")
        out.append("inductive ToStep | swapChans | swapRegions | deserialize | deserializeProp")
        out.append("deriving Repr, DecidableEq")
        out.append("def toScript : List ToStep := [" + ", ".join('.' + x for x in steps) + "]")
        # the (de)serialisers of endpoints and regions: the index written is the table length before the push; an index is
        # honoured only if it is in range and not used before (`get_mut(index).and_then(Option::take)`)
        flat = re.sub(r'\s+', '', strip_comments(ipc))
        n_push = len(re.findall(r'letindex=(\w+)\.len\(\);\1\.push\([^;]*\);index\}', flat))
        n_push_any = len(re.findall(r'for_serialization\.push\(', flat))
        out.append(f"def shape_serIndexBeforePush : Bool := {'true' if n_push == 3 and n_push_any == 3 else 'false'}  -- sender, receiver, region")
        n_take = len(re.findall(r'\.borrow_mut\(\)\.get_mut\(index\)\.and_then\(Option::take\)', flat))
        n_deser_access = len(re.findall(r'for_deserialization\.borrow', flat)) + len(re.findall(r'for_deserialization\|\{os_ipc\w*for_deserialization\.borrow', flat))
        out.append(f"def shape_takeChecked : Bool := {'true' if n_take == 2 else 'false'}  -- channels (shared by senders and receivers), regions")
        out.append(f"def shape_shmEmptySentinel : Bool := {'true' if 'ifindex==usize::MAX{Ok(IpcSharedMemory::empty())}' in flat and '}else{usize::MAX}.serialize(serializer)' in flat else 'false'}")
        # what embedding an endpoint in a message does to the program's handle (C03 / C19 / C04): a sender is cloned for the message,
        # a receiver is moved into it (whatever happens to the send afterwards), a region is cloned
        mv = ('os_ipc_channels_for_serialization.push(OsIpcChannel::Sender(os_ipc_sender.clone()));' in flat
              and 'os_ipc_channels_for_serialization.push(OsIpcChannel::Receiver(os_receiver.consume()));' in flat
              and 'os_ipc_shared_memory_regions_for_serialization.push(os_shared_memory.clone());' in flat)
        out.append(f"def shape_embedClonesSenderMovesReceiver : Bool := {'true' if mv else 'false'}")
        out.append("")
    run_unit('GenIpc', unit_ipc)
    def unit_inproc(out):
        # the in-process transport (C03 / C10 / C19 / C09 on `--features force-inprocess`): which crossbeam call each receive
        # makes and how every outcome of that call is mapped to the platform error, how the platform error is mapped to the
        # public one, and a few statement facts (unbounded queue, `consume` empties the handle, `send` passes its vectors on)
        try:
            inproc = open(os.path.join(REPO, 'src/platform/inprocess/mod.rs')).read()
        except OSError as e:
            fail(f"cannot read src/platform/inprocess/mod.rs: {e}")
        src = strip_comments(inproc)
        out.append("inductive XCall | recv | tryRecv | recvTimeout")
        out.append("deriving Repr, DecidableEq")
        out.append("inductive XPat | any | empty | timeout | disconnected  -- `Err(_)`, `…::Empty`, `…::Timeout`, `…::Disconnected`")
        out.append("deriving Repr, DecidableEq")
        out.append("inductive CErr | closed | broken | empty | unknown")
        out.append("deriving Repr, DecidableEq")
        variants = {'ChannelClosedError': 'closed', 'BrokenPipeError': 'broken', 'ChannelEmpty': 'empty', 'UnknownError': 'unknown'}
        calls = {'recv': (r'\.recv\(\)', 'recv'), 'try_recv': (r'\.try_recv\(\)', 'tryRecv'), 'try_recv_timeout': (r'\.recv_timeout\(duration\)', 'recvTimeout')}
        m0 = src.find('impl OsIpcReceiver {')
        if m0 < 0:
            fail("in-process OsIpcReceiver impl not found")
        rimpl = src[m0:find_block(src, m0 + len('impl OsIpcReceiver {'))]
        for fn, (rx, lean) in calls.items():
            m = re.search(r'pub fn ' + fn + r'\(', rimpl)
            if not m:
                fail(f"in-process {fn} not found")
            b0 = rimpl.find('{', rimpl.find('ChannelError>', m.end()))
            body = re.sub(r'\s+', '', rimpl[b0 + 1:find_block(rimpl, b0 + 1) - 1])
            made = [l for (r, l) in calls.values() if re.search(r, body)]
            allcalls = sum(len(re.findall(r, body)) for (r, l) in calls.values())
            if made != [lean] or allcalls != 1:
                fail(f"in-process {fn}: expected exactly one crossbeam call ({lean}), found {made} ({allcalls} calls)")
            for tok in (r'\breturn\b', r'\bif\b', r'\bloop\b', r'\bwhile\b', r'\bfor\b', r'select', r'after\(', r'tick\('):
                if re.search(tok, body):
                    fail(f"in-process {fn}: unexpected construct {tok!r}")
            if not re.search(r'Ok\(ChannelMessage\((\w+),(\w+),(\w+)\)\)=>\{?Ok\(\(\1,\2\.into_iter\(\)\.map\(OsOpaqueIpcChannel::new\)\.collect\(\),\3\)\)', body):
                fail(f"in-process {fn}: the message arm does not pass data, channels and regions through")
            arms = []
            for mm in re.finditer(r'(Err\(_\)|(?:\w+::)?(?:Empty|Timeout|Disconnected))=>Err\(ChannelError::(\w+)\)', body):
                pat = mm.group(1)
                pat = 'any' if pat == 'Err(_)' else pat.split('::')[-1].lower()
                if mm.group(2) not in variants:
                    fail(f"in-process {fn}: unknown ChannelError::{mm.group(2)}")
                arms.append(f"(.{pat}, .{variants[mm.group(2)]})")
            if len(arms) != len(re.findall(r'=>Err\(', body)):
                fail(f"in-process {fn}: an error arm that is not of the form `pattern => Err(ChannelError::…)`")
            out.append(f"def inprocCall_{lean} : XCall := .{lean}")
            out.append(f"def inprocArms_{lean} : List (XPat × CErr) := [" + ", ".join(arms) + "]")
        flat = re.sub(r'\s+', '', src)
        # conversions to the public errors
        def conv(target, rx_arms):
            m = re.search(r'implFrom<ChannelError>for' + target + r'\{fnfrom\(error:ChannelError\)->Self\{matcherror\{(.*?)\}\}\}', flat)
            if not m:
                fail(f"From<ChannelError> for {target} not found")
            return m.group(1)
        a = conv('ipc::IpcError', None)
        b = conv('ipc::TryRecvError', None)
        out.append(f"def inprocConvIpcError : Bool := {'true' if a.startswith('ChannelError::ChannelClosedError=>ipc::IpcError::Disconnected,') and a.count('Disconnected') == 1 else 'false'}  -- closed -> Disconnected, nothing else is")
        ok_b = (b.startswith('ChannelError::ChannelClosedError=>{ipc::TryRecvError::IpcError(ipc::IpcError::Disconnected)},ChannelError::ChannelEmpty=>ipc::TryRecvError::Empty,')
                and b.count('Disconnected') == 1 and b.count('TryRecvError::Empty') == 1)
        out.append(f"def inprocConvTryRecvError : Bool := {'true' if ok_b else 'false'}  -- closed -> Disconnected, empty -> Empty, nothing else is either")
        out.append(f"def inprocUnbounded : Bool := {'true' if 'crossbeam_channel::unbounded::<ChannelMessage>()' in flat and 'bounded(' not in flat.replace('unbounded(', '') and 'bounded::<' not in flat.replace('unbounded::<', '') else 'false'}")
        out.append(f"def inprocConsumeTakes : Bool := {'true' if 'pubfnconsume(&self)->OsIpcReceiver{OsIpcReceiver{receiver:RefCell::new(self.receiver.borrow_mut().take()),}}' in flat else 'false'}")
        snd = 'Ok(self.sender.borrow().send(ChannelMessage(data.to_vec(),ports,shared_memory_regions)).map_err(|_|ChannelError::BrokenPipeError)?)'
        m = re.search(r'pubfnsend\(&self,data:&\[u8\],ports:Vec<OsIpcChannel>,shared_memory_regions:Vec<OsIpcSharedMemory>,?\)->Result<\(\),ChannelError>\{(.*?)\}\}pubstructOsIpcReceiverSet', flat)
        out.append(f"def inprocSendPassesThrough : Bool := {'true' if m and m.group(1) == snd else 'false'}  -- the whole body of send: one queue operation with the three parts as given")
        out.append(f"def inprocAddMoves : Bool := {'true' if 'self.receivers.push(receiver.consume());' in flat else 'false'}")
        # the rendezvous registry (C08 / C19): `new` registers the name, `accept` and dropping the server unregister it, `connect` looks it
        # up without unwrapping (an unknown name is an error, not a panic with the registry locked)
        reg_new = 'ONE_SHOT_SERVERS.lock().unwrap().insert(name.clone(),record);' in flat
        m = re.search(r'pubfnconnect\(name:String\)->Result<OsIpcSender,ChannelError>\{(.*?)\}pubfnget_max_fragment_size', flat)
        if not m:
            fail("in-process connect not found")
        cbody = m.group(1)
        checked = ('ONE_SHOT_SERVERS.lock().unwrap().get(&name).cloned().ok_or(ChannelError::UnknownError)?;' in cbody and 'unwrap().get(&name).unwrap()' not in cbody
                   and cbody.count('unwrap()') == 1)
        legacy_conn = 'letrecord=ONE_SHOT_SERVERS.lock().unwrap().get(&name).unwrap().clone();' in cbody
        if not checked and not legacy_conn:
            fail("in-process connect: how the registry lookup handles an unknown name is not recognised")
        acc_unreg = re.search(r'record\.accept\(\);ONE_SHOT_SERVERS\.lock\(\)\.unwrap\(\)\.remove\(&self\.name\)\.unwrap\(\);', flat) is not None
        drop_unreg = 'implDropforOsIpcOneShotServer{fndrop(&mutself){ifletOk(mutservers)=ONE_SHOT_SERVERS.lock(){servers.remove(&self.name);}}}' in flat
        no_drop = 'implDropforOsIpcOneShotServer' not in flat
        if not drop_unreg and not no_drop:
            fail("in-process one-shot server: its Drop impl is not recognised")
        # receiver set of the in-process transport: ids come from a counter that only grows; a closed member leaves both parallel vectors
        # at the same index
        ids_counter = ('letlast_index=self.incrementor.next().unwrap();self.receiver_ids.push(last_index);self.receivers.push(receiver.consume());Ok(last_index)' in flat
                       and 'incrementor:0..,' in flat and flat.count('incrementor') == 3)
        ids_len = 'self.receiver_ids.len()asu64' in flat
        if not ids_counter and not ids_len:
            fail("in-process OsIpcReceiverSet::add: where the id comes from is not recognised")
        out.append(f"def inprocSetIdsFromCounter : Bool := {'true' if ids_counter else 'false'}  -- false: the id is the current number of members")
        par = 'self.receivers.remove(r_index);self.receiver_ids.remove(r_index);Ok(vec![OsIpcSelectionResult::ChannelClosed(r_id)])' in flat and 'letr_id=self.receiver_ids[r_index];' in flat
        out.append(f"def inprocSetParallelRemove : Bool := {'true' if par else 'false'}")
        # the in-process transport knows which kind of endpoint an attachment is; asked for the other kind it panics (D18, open)
        kp = ('OsIpcChannel::Sender(_)=>panic!("Opaquechannelisnotareceiver!"),' in flat and 'OsIpcChannel::Receiver(_)=>panic!("Opaquechannelisnotasender!"),' in flat)
        out.append(f"def inprocKindMismatchPanics : Bool := {'true' if kp else 'false'}  -- to_sender on a receiver / to_receiver on a sender: `panic!`")
        # …but decoding does not go through those any more (repair of D18): ipc.rs converts with platform::attachment::{to_sender, to_receiver},
        # which on this back-end are try_to_sender / try_to_receiver — `None` for the wrong kind, the attachment released
        fipc = re.sub(r'\s+', '', strip_comments(ipc))
        fpm = re.sub(r'\s+', '', strip_comments(read('src/platform/mod.rs')))
        uses = ('.and_then(|mutos_ipc_channel|platform::attachment::to_sender(&mutos_ipc_channel))' in fipc
                and '.and_then(|mutos_ipc_channel|platform::attachment::to_receiver(&mutos_ipc_channel))' in fipc
                and 'os_ipc_channel.to_sender()' not in fipc and 'os_ipc_channel.to_receiver()' not in fipc)
        tries = ('pubfntry_to_sender(&mutself)->Option<OsIpcSender>{matchself.channel.borrow_mut().take(){Some(OsIpcChannel::Sender(s))=>Some(s),_=>None,}}' in flat
                 and 'pubfntry_to_receiver(&self)->Option<OsIpcReceiver>{matchself.channel.borrow_mut().take(){Some(OsIpcChannel::Receiver(r))=>Some(r),_=>None,}}' in flat)
        wired = ('pubfnto_sender(channel:&mutOsOpaqueIpcChannel)->Option<OsIpcSender>{channel.try_to_sender()}' in fpm
                 and 'pubfnto_receiver(channel:&mutOsOpaqueIpcChannel)->Option<OsIpcReceiver>{channel.try_to_receiver()}' in fpm
                 and 'pubfnto_sender(channel:&mutOsOpaqueIpcChannel)->Option<OsIpcSender>{Some(channel.to_sender())}' in fpm
                 and 'pubfnto_receiver(channel:&mutOsOpaqueIpcChannel)->Option<OsIpcReceiver>{Some(channel.to_receiver())}' in fpm)
        out.append(f"def decodeKindMismatchIsError : Bool := {'true' if uses and tries and wired else 'false'}  -- false: decoding calls the panicking conversions")
        out.append(f"def inprocNewRegisters : Bool := {'true' if reg_new else 'false'}")
        out.append(f"def inprocConnectChecked : Bool := {'true' if checked else 'false'}  -- false: `.get(&name).unwrap()` with the registry locked")
        out.append(f"def inprocAcceptUnregisters : Bool := {'true' if acc_unreg else 'false'}")
        out.append(f"def inprocDropUnregisters : Bool := {'true' if drop_unreg else 'false'}  -- false: no Drop impl, a server dropped unused stays registered")
    run_unit('GenInproc', unit_inproc)
    def unit_async(out):
        # the routing thread of the async feature (C20): every select result is handled, messages are forwarded to the route's
        # queue, a closure removes the route (dropping the queue's sender ends the stream), every pending registration is taken
        if not asynch:
            fail("src/asynch.rs not found")
        flat = re.sub(r'\s+', '', strip_comments(asynch))
        loop_head = 'whileletOk(mutselections)=receivers.select(){forselectioninselections.drain(..){matchselection{'
        arm_msg = 'IpcSelectionResult::MessageReceived(id,msg)=>{ifletSome(sender)=senders.get(&id){let_=sender.unbounded_send(msg);}},'
        arm_closed = 'IpcSelectionResult::ChannelClosed(id)=>{senders.remove(&id);},'
        regs = 'if!recv.is_terminated(){whileletOk(Some((receiver,sender)))=recv.try_next(){ifletOk(id)=receivers.add_opaque(receiver){senders.insert(id,sender);}}}'
        whole = loop_head + arm_msg + arm_closed + '}}' + regs + '}'
        out.append(f"def shape_asyncEveryResult : Bool := {'true' if whole in flat else 'false'}  -- the loop body is exactly: handle every result of the batch, then take every registration")
        out.append(f"def shape_asyncForward : Bool := {'true' if arm_msg in flat else 'false'}")
        out.append(f"def shape_asyncClosedRemoves : Bool := {'true' if arm_closed in flat else 'false'}")
        out.append(f"def shape_asyncRegistersAll : Bool := {'true' if regs in flat else 'false'}")
        i_reg = flat.find('let_=ROUTER.add_route.unbounded_send((opaque,send));')
        i_wake = flat.find('ifletOk(waker)=ROUTER.wakeup.lock(){let_=waker.send(());}')
        out.append(f"def shape_toStreamRegistersThenWakes : Bool := {'true' if 0 <= i_reg < i_wake else 'false'}")
        pn = 'matchrecv.poll_next(ctx){Poll::Ready(Some(msg))=>Poll::Ready(Some(msg.to())),Poll::Ready(None)=>Poll::Ready(None),Poll::Pending=>Poll::Pending,}'
        out.append(f"def shape_pollNextPassesThrough : Bool := {'true' if pn in flat else 'false'}")
    run_unit('GenAsync', unit_async)
    def unit_router(out):
        # Router (C07/C17): which variant of the model the source is — each flag is a statement-order / arm-shape fact
        _, _, run = find_fn(router, 'run')
        out.append(f"def routerRunArms : Nat := {len(re.findall(r'IpcSelectionResult::', run))}")
        flat = re.sub(r'\s+', '', run)
        # the wake-up arm: clear the flag, then serve the queue until it is empty
        # (inside the wake-up arm, directly in front of the loop and nowhere else: cleared later, a request queued in between is never announced)
        arm = 'IpcSelectionResult::MessageReceived(id,_)ifid==self.msg_wakeup_id=>{self.wakeup_pending.store(false,Ordering::SeqCst);whileletOk(msg)=self.msg_receiver.try_recv(){'
        out.append(f"def vOneMsgPerWake : Bool := {'false' if arm in flat and flat.count('wakeup_pending.store(false') == 1 else 'true'}  -- false: flag cleared, then `while let Ok(msg) = try_recv()`")
        # the Shutdown arm: handlers cleared, then acknowledged, then `return`
        m = re.search(r'RouterMsg::Shutdown\(sender\)=>\{(.*?)\},', flat)
        arm = m.group(1) if m else ''
        i_clr, i_ack, i_ret = arm.find('self.handlers.clear();'), arm.find('sender.send(())'), arm.find('return;')
        out.append(f"def vAckBeforeDrop : Bool := {'false' if 0 <= i_clr < i_ack else 'true'}  -- false: `handlers.clear()` before the acknowledgement")
        out.append(f"def vBreakInnerOnly : Bool := {'false' if 0 <= i_ack < i_ret and 'break' not in arm else 'true'}  -- false: the arm ends the thread with `return`")
        # a closed wake-up channel (proxy dropped) has its own arm, ahead of the general one, and stops the router
        m1 = re.search(r'IpcSelectionResult::ChannelClosed\(id\)ifid==self\.msg_wakeup_id=>\{self\.handlers\.clear\(\);return;\},', flat)
        m2 = re.search(r'IpcSelectionResult::ChannelClosed\(id\)=>\{', flat)
        out.append(f"def vPanicOnWakeClosed : Bool := {'false' if m1 and m2 and m1.start() < m2.start() else 'true'}  -- false: dedicated arm clears and returns")
        # RouterProxy::shutdown: the acknowledgement is awaited after the block that holds the lock has ended
        _, _, sd = find_fn(router, 'shutdown')
        fsd = re.sub(r'\s+', '', sd)
        mb = re.match(r'letack_receiver=\{letmutcomm=self\.comm\.lock\(\)\.unwrap\(\);', fsd)
        waits_unlocked = False
        if mb:
            # end of the `let ack_receiver = { … };` block
            depth, i = 0, fsd.find('{')
            j = i
            while j < len(fsd):
                if fsd[j] == '{':
                    depth += 1
                elif fsd[j] == '}':
                    depth -= 1
                    if depth == 0:
                        break
                j += 1
            rest = fsd[j + 1:]
            waits_unlocked = 'ack_receiver.recv()' in rest and 'ack_receiver.recv()' not in fsd[:j] and 'comm' not in rest
        out.append(f"def vLockWhileWaiting : Bool := {'false' if waits_unlocked else 'true'}  -- false: `ack_receiver.recv()` after the locked block")
        i_flag, i_send, i_wake = fsd.find('comm.shutdown=true;'), fsd.find('.send(RouterMsg::Shutdown(ack_sender))'), fsd.find('let_=comm.wake();')
        out.append(f"def shape_shutdownOrder : Bool := {'true' if 0 <= i_flag < i_send < i_wake else 'false'}  -- flag, request, wake-up (its failure ignored)")
        out.append(f"def shape_shutdownIdempotent : Bool := {'true' if 'Some(refack_receiver)=>ack_receiver.clone(),' in fsd else 'false'}")
        _, _, ar = find_fn(router, 'add_route')
        far = re.sub(r'\s+', '', ar)
        i_lock, i_chk, i_snd, i_wk = far.find('self.comm.lock()'), far.find('ifcomm.shutdown{return;}'), far.find('.send(RouterMsg::AddRoute(receiver,callback))'), far.find('comm.wake()')
        out.append(f"def shape_addRouteOrder : Bool := {'true' if 0 <= i_lock < i_chk < i_snd < i_wk else 'false'}  -- lock, late-offer check, request, wake-up")
        # the crossbeam-forwarding handler: a message that does not decode is dropped (repaired) or `unwrap`ped (panics the router thread)
        frouter = re.sub(r'\s+', '', strip_comments(router))
        fwd_ok = 'Box::new(move|message|{ifletOk(message)=message.to::<T>(){drop(crossbeam_sender.send(message));}}),' in frouter
        fwd_legacy = 'Box::new(move|message|drop(crossbeam_sender.send(message.to::<T>().unwrap()))),' in frouter
        if not fwd_ok and not fwd_legacy:
            fail("route_ipc_receiver_to_crossbeam_sender: the forwarding handler is not recognised")
        out.append(f"def vFwdUnwraps : Bool := {'false' if fwd_ok else 'true'}  -- false: `if let Ok(message) = message.to::<T>() {{ … }}`")
        _, _, wk = find_fn(router, 'wake')
        fwk = re.sub(r'\s+', '', wk)
        out.append(f"def shape_wakeCoalesced : Bool := {'true' if fwk.startswith('if!self.wakeup_pending.swap(true,Ordering::SeqCst){self.wakeup_sender.send(())?;}Ok(())') else 'false'}")
    run_unit('GenRouter', unit_router)
    return files, errors

def main():
    files, errors = generate()
    outdir = os.path.normpath(os.path.dirname(OUT))
    os.makedirs(outdir, exist_ok=True)
    for name, text in files.items():
        out = os.path.join(outdir, name + '.lean')
        old = None
        try:
            old = open(out).read()
        except OSError:
            pass
        if old != text:
            tmp = out + '.tmp'
            open(tmp, 'w').write(text)
            os.replace(tmp, out)
            print(f"translator: {name}.lean updated")
        else:
            print(f"translator: {name}.lean unchanged")
    for name, msg in errors.items():
        print(f"translator: unit {name} NOT translated: {msg.splitlines()[0]}", file=sys.stderr)
    return 0


if __name__ == '__main__':
    sys.exit(main())
