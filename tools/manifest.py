#!/usr/bin/env python3
"""Regenerates MANIFEST.json from tools/props.py (claimed checks) and properties.jsonl (everything else is listed
under not_applicable with the reason it is not claimed yet)."""
import json, os, sys
ROOT = os.path.dirname(os.path.dirname(os.path.abspath(__file__)))
sys.path.insert(0, os.path.join(ROOT, 'tools'))
import props as P
ids = [json.loads(l)['id'] for l in open(os.path.join(ROOT, 'properties.jsonl'))]
hooks = json.load(open(os.path.join(ROOT, 'tools', 'hooks.json')))
import re
def closure(mods):
    seen = set(); todo = list(mods)
    while todo:
        m = todo.pop()
        if m in seen or not m.startswith('IpcModel'):
            continue
        seen.add(m)
        f = os.path.join(ROOT, 'lean', m.replace('.', '/') + '.lean')
        if os.path.exists(f):
            todo += re.findall(r'^import (\S+)', open(f).read(), re.M)
    return seen
def technique(c):
    if 'technique' in c:
        return c['technique']
    if 'IpcModel.Gen' in closure(c['modules']):
        return ('Lean 4 theorems over an executable model whose constants, size arithmetic and shape facts are regenerated from /repo by the translator on every run '
                '(proof obligations re-checked against them), plus trace correspondence (harness vs compiled Lean driver) and an implementation oracle')
    return ('Lean 4 theorems over a hand-written executable model tied to /repo on every run by trace correspondence (real crate under the harness vs the compiled '
            'Lean driver on the same inputs), plus an implementation oracle')
checks = []
for pid in ids:
    if pid in P.PROPS and P.PROPS[pid].get('claimed', True):
        c = P.PROPS[pid]
        checks.append({
            'property_id': pid,
            'quick_cmd': f'./check {pid} --tier quick',
            'thorough_cmd': f'./check {pid} --tier thorough',
            'evidence_file': f'/verif/evidence/{pid}.json',
            'replay_cmd_template': f'./check {pid} --replay {{path}}',
            'engine': 'lean4-model+harness',
            'level_claimed': {'category': 'proof', 'text': c['level_text'], 'design_ref': 'DESIGN.md section 5, ' + pid},
            'level_note': c['level_note'],
            'technique': technique(c),
        })
na = [{'property_id': pid, 'reason': P.NOT_CLAIMED.get(pid, 'check not built yet (work in progress; DESIGN.md section 11)')}
      for pid in ids if not (pid in P.PROPS and P.PROPS[pid].get('claimed', True))]
m = {
    'version': 1,
    'setup_cmd': './setup.sh',
    'hooks': hooks,
    'engines': [{'name': 'lean4-model+harness', 'path': '/verif/check', 'serves_properties': [c['property_id'] for c in checks],
                 'kind_free_text': 'Lean 4 proofs (lean/IpcModel/Props) over a model partly regenerated from /repo by tools/translate.py; '
                                   'Rust harness with in-binary libc interposer (harness/) compared line by line with the compiled Lean driver'}],
    'checks': checks,
    'not_applicable': na,
    'notes': 'Every check re-runs the translator, lake build of the property theorems, the axiom audit, cargo build of the harness against /repo, '
             'the correspondence run and the implementation oracle. See DESIGN.md.',
}
json.dump(m, open(os.path.join(ROOT, 'MANIFEST.json'), 'w'), indent=1)
print('MANIFEST.json:', len(checks), 'checks,', len(na), 'not claimed')
