#!/usr/bin/env python3
"""Regenerates MANIFEST.json from tools/props.py (claimed checks) and properties.jsonl (everything else is listed
under not_applicable with the reason it is not claimed yet)."""
import json, os, sys
ROOT = os.path.dirname(os.path.dirname(os.path.abspath(__file__)))
sys.path.insert(0, os.path.join(ROOT, 'tools'))
import props as P
ids = [json.loads(l)['id'] for l in open(os.path.join(ROOT, 'properties.jsonl'))]
hooks = json.load(open(os.path.join(ROOT, 'tools', 'hooks.json')))
checks = []
for pid in ids:
    if pid in P.PROPS and P.PROPS[pid].get('claimed', True):
        c = P.PROPS[pid]
        checks.append({
            'property_id': pid,
            'quick_cmd': f'./check {pid} --tier quick',
            'thorough_cmd': f'./check {pid} --tier thorough',
            'evidence_file': f'/verif/evidence/{pid}.json',
            'replay_cmd_template': f'./check {pid} --replay {{path}}',
            'engine': 'lean4-model+harness',
            'level_claimed': {'category': 'proof', 'text': c['level_text'], 'design_ref': 'DESIGN.md section 5, ' + pid},
            'level_note': c['level_note'],
            'technique': c.get('technique', 'Lean 4 theorems over a model regenerated/tied to the code (translator + trace correspondence), implementation oracle'),
        })
na = [{'property_id': pid, 'reason': P.NOT_CLAIMED.get(pid, 'check not built yet (work in progress; DESIGN.md section 11)')}
      for pid in ids if not (pid in P.PROPS and P.PROPS[pid].get('claimed', True))]
m = {
    'version': 1,
    'setup_cmd': './setup.sh',
    'hooks': hooks,
    'engines': [{'name': 'lean4-model+harness', 'path': '/verif/check', 'serves_properties': [c['property_id'] for c in checks],
                 'kind_free_text': 'Lean 4 proofs (lean/IpcModel/Props) over a model partly regenerated from /repo by tools/translate.py; '
                                   'Rust harness with in-binary libc interposer (harness/) compared line by line with the compiled Lean driver'}],
    'checks': checks,
    'not_applicable': na,
    'notes': 'Every check re-runs the translator, lake build of the property theorems, the axiom audit, cargo build of the harness against /repo, '
             'the correspondence run and the implementation oracle. See DESIGN.md.',
}
json.dump(m, open(os.path.join(ROOT, 'MANIFEST.json'), 'w'), indent=1)
print('MANIFEST.json:', len(checks), 'checks,', len(na), 'not claimed')
